#!/bin/sh
# Run once after a fresh restore, offline. Nothing to build ahead of time: every check rebuilds what
# it needs from /repo's working tree into /verif/.build (cargo/kani target dirs, generated Verus files).
set -e
cd "$(dirname "$0")"
mkdir -p .build evidence replays
command -v verus >/dev/null || { echo "verus not on PATH"; exit 1; }
cargo kani --version >/dev/null || { echo "cargo kani not available"; exit 1; }
python3 -c "import json; json.load(open('MANIFEST.json'))"
echo "setup ok"
