// U-glob (C32): included into gix-refspec/src/match_group/util.rs under cfg(any(kani, gix_verif)).
// Contract for Needle::Glob{..}.matches and Needle::to_bstr_replace, taken from git's
// match_name_with_pattern(): a pattern `pre*suf` matches a name iff
//     name.len() >= pre.len() + suf.len()  &&  name starts with pre  &&  name ends with suf
// and the part substituted for `*` in the destination is name[pre.len() .. name.len()-suf.len()].
include!(concat!(env!("GIX_VERIF_DIR"), "/engine/src_trait.rs"));

fn h_glob_matches<const P: usize, const I: usize, S: Src>(s: &mut S) {
    let pat: [u8; P] = s.bytes();
    let item: [u8; I] = s.bytes();
    let star = s.usize();
    s.assume(star < P);
    s.assume(pat[star] == b'*');
    // `From<&BStr> for Needle` records the position of the FIRST asterisk
    let mut k = 0;
    while k < P {
        if k < star { s.assume(pat[k] != b'*'); }
        k += 1;
    }
    let id = gix_hash::ObjectId::null(gix_hash::Kind::Sha1);
    let needle = Needle::Glob { name: pat[..].as_bstr(), asterisk_pos: star };
    let it = Item { full_ref_name: item[..].as_bstr(), target: &id, object: None };
    let m = needle.matches(it);
    let pre = &pat[..star];
    let suf = &pat[star + 1..];
    let expect = I >= pre.len() + suf.len() && item.starts_with(pre) && item.ends_with(suf);
    match m {
        Match::GlobRange(r) => {
            assert!(expect, "glob reported a match git's match_name_with_pattern() does not make");
            assert!(r.start == pre.len() && r.end == I - suf.len(), "substituted range is item[pre.len()..len-suf.len()]");
        }
        Match::None => assert!(!expect, "glob missed a match"),
        Match::Normal => assert!(false, "glob needle must produce a range"),
    }
    s.reach();
}

/// matches + substitution into a destination glob: dst_pre ++ item[range] ++ dst_suf; never panics
fn h_glob_replace<const P: usize, const I: usize, const D: usize, S: Src>(s: &mut S) {
    let pat: [u8; P] = s.bytes();
    let item: [u8; I] = s.bytes();
    let dst: [u8; D] = s.bytes();
    let star = s.usize();
    s.assume(star < P);
    s.assume(pat[star] == b'*');
    let mut k = 0;
    while k < P {
        if k < star { s.assume(pat[k] != b'*'); }
        k += 1;
    }
    let dstar = s.usize();
    s.assume(dstar < D);
    s.assume(dst[dstar] == b'*');
    let id = gix_hash::ObjectId::null(gix_hash::Kind::Sha1);
    let lhs = Needle::Glob { name: pat[..].as_bstr(), asterisk_pos: star };
    let rhs = Needle::Glob { name: dst[..].as_bstr(), asterisk_pos: dstar };
    let it = Item { full_ref_name: item[..].as_bstr(), target: &id, object: None };
    let (matched, out) = lhs.matches(it).into_match_outcome(rhs, it);
    let pre = &pat[..star];
    let suf = &pat[star + 1..];
    let expect = I >= pre.len() + suf.len() && item.starts_with(pre) && item.ends_with(suf);
    assert!(matched == expect, "match decision equals git's rule");
    if matched {
        let out = out.expect("a destination is produced for a match");
        let mid = &item[pre.len()..I - suf.len()];
        assert!(out.len() == dstar + mid.len() + (D - dstar - 1), "destination length");
        assert!(out.starts_with(&dst[..dstar]) && out.ends_with(&dst[dstar + 1..]), "destination keeps its prefix and suffix");
        assert!(&out[dstar..dstar + mid.len()] == mid, "asterisk replaced by the matched part");
    }
    s.reach();
}

/// FullName needles match by equality only
fn h_fullname<const P: usize, const I: usize, S: Src>(s: &mut S) {
    let pat: [u8; P] = s.bytes();
    let item: [u8; I] = s.bytes();
    let id = gix_hash::ObjectId::null(gix_hash::Kind::Sha1);
    let it = Item { full_ref_name: item[..].as_bstr(), target: &id, object: None };
    let m = Needle::FullName(pat[..].as_bstr()).matches(it);
    assert!(m.is_match() == (pat[..] == item[..]), "full names match by equality");
    s.reach();
}

harnesses! {
    #[kani::proof] #[kani::unwind(8)] glob_2_1 => h_glob_matches::<2, 1, _>;
    #[kani::proof] #[kani::unwind(8)] glob_3_1 => h_glob_matches::<3, 1, _>;
    #[kani::proof] #[kani::unwind(8)] glob_3_2 => h_glob_matches::<3, 2, _>;
    #[kani::proof] #[kani::unwind(8)] glob_3_3 => h_glob_matches::<3, 3, _>;
    #[kani::proof] #[kani::unwind(8)] glob_3_4 => h_glob_matches::<3, 4, _>;
    #[kani::proof] #[kani::unwind(8)] glob_4_3 => h_glob_matches::<4, 3, _>;
    #[kani::proof] #[kani::unwind(8)] glob_4_5 => h_glob_matches::<4, 5, _>;
    #[kani::proof] #[kani::unwind(8)] glob_5_4 => h_glob_matches::<5, 4, _>;
    #[kani::proof] #[kani::unwind(8)] glob_5_6 => h_glob_matches::<5, 6, _>;
    #[kani::proof] #[kani::unwind(10)] glob_7_5 => h_glob_matches::<7, 5, _>;
    #[kani::proof] #[kani::unwind(10)] glob_6_7 => h_glob_matches::<6, 7, _>;
    #[kani::proof] #[kani::unwind(10)] glob_7_7 => h_glob_matches::<7, 7, _>;
    #[kani::proof] #[kani::unwind(12)] glob_9_9 => h_glob_matches::<9, 9, _>;
    #[kani::proof] #[kani::unwind(14)] glob_8_12 => h_glob_matches::<8, 12, _>;
    #[kani::proof] #[kani::unwind(12)] replace_6_8_5 => h_glob_replace::<6, 8, 5, _>;
    #[kani::proof] #[kani::unwind(8)] replace_3_1_3 => h_glob_replace::<3, 1, 3, _>;
    #[kani::proof] #[kani::unwind(8)] replace_3_2_3 => h_glob_replace::<3, 2, 3, _>;
    #[kani::proof] #[kani::unwind(8)] replace_3_3_2 => h_glob_replace::<3, 3, 2, _>;
    #[kani::proof] #[kani::unwind(8)] replace_3_4_3 => h_glob_replace::<3, 4, 3, _>;
    #[kani::proof] #[kani::unwind(10)] replace_5_6_4 => h_glob_replace::<5, 6, 4, _>;
    #[kani::proof] #[kani::unwind(8)] fullname_3_3 => h_fullname::<3, 3, _>;
    #[kani::proof] #[kani::unwind(8)] fullname_3_4 => h_fullname::<3, 4, _>;
}
replay_test!();
