"""U-glob (C32): refspec glob matching and substitution."""
FUNCS = ["gix_refspec::match_group::util::Needle::matches", "gix_refspec::match_group::util::Needle::to_bstr_replace",
         "gix_refspec::match_group::util::Match::into_match_outcome"]

def H(name, tier="quick", bound="", timeout=600, mem_gb=8, **kw):
    d = {"name": name, "props": ["C32"], "tier": tier, "kind": "bounded", "bound": bound, "timeout": timeout, "mem_gb": mem_gb}
    d.update(kw)
    return d

def g(p, i, tier="quick"):
    return H("glob_%d_%d" % (p, i), tier, "every pattern of %d bytes with its first '*' at any position x every item name of %d bytes" % (p, i))

def r(p, i, d, tier="quick"):
    return H("replace_%d_%d_%d" % (p, i, d), tier, "pattern %d bytes x item %d bytes x destination %d bytes, '*' anywhere" % (p, i, d), timeout=900, mem_gb=12)

KANI = [{
    "mode": "in_crate", "repo_crate": "gix-refspec",
    "harness_prefix": "match_group::util::verif_kani::kani_proofs::",
    "functions": FUNCS,
    "harnesses": [g(2, 1), g(3, 1), g(3, 2), g(3, 3), g(3, 4), g(4, 3), g(4, 5), g(5, 4), g(5, 6), g(7, 5), g(6, 7), g(7, 7), g(9, 9, "thorough"), g(8, 12, "thorough"),
                  r(3, 1, 3), r(3, 2, 3), r(3, 3, 2), r(3, 4, 3), r(5, 6, 4, "thorough"), r(6, 8, 5, "thorough"),
                  H("fullname_3_3", bound="names of 3 bytes"), H("fullname_3_4", bound="3 vs 4 bytes")],
}]

ASSUMPTIONS = [
    ("C32", "only Needle-level glob/full-name matching and destination substitution are under contract; negative specs, partial-name expansion order, object-id specs and MatchGroup orchestration are undecided (oracle is git)"),
]
