// U-time (C01): included into gix-date/src/lib.rs as `pub mod verif_kani` under cfg(any(kani, gix_verif)).
include!(concat!(env!("GIX_VERIF_DIR"), "/engine/src_trait.rs"));

/// SPEC: number of characters of the decimal rendering of `n` (with a leading '-' for negatives):
/// the least k with |n| < 10^k, computed in u128 so that it is independent of i64 corner cases.
pub fn dec_len(n: i64) -> usize {
    let a: u128 = if n < 0 { (-(n as i128)) as u128 } else { n as u128 };
    let mut k = 1usize;
    let mut p: u128 = 10;
    while k < 20 {
        if a < p { break; }
        p *= 10;
        k += 1;
    }
    k + if n < 0 { 1 } else { 0 }
}

/// an io::Write that only counts
pub struct Count(pub usize);
impl std::io::Write for Count {
    fn write(&mut self, buf: &[u8]) -> std::io::Result<usize> { self.0 += buf.len(); Ok(buf.len()) }
    fn write_all(&mut self, buf: &[u8]) -> std::io::Result<()> { self.0 += buf.len(); Ok(()) }
    fn flush(&mut self) -> std::io::Result<()> { Ok(()) }
}

fn any_sign<S: Src>(s: &mut S) -> crate::time::Sign {
    if s.bool() { crate::time::Sign::Plus } else { crate::time::Sign::Minus }
}

/// proof of the in-place contract `size() == dec_len(seconds) + 6` for every Time value
fn h_time_size_contract<S: Src>(s: &mut S) {
    let t = crate::Time { seconds: s.i64(), offset: s.i32(), sign: any_sign(s) };
    let r = t.size();
    // natively (replay) the contract attribute is not compiled in: assert it here as well
    assert!(r == dec_len(t.seconds) + 6, "Time::size() == decimal length of seconds + 6");
    s.reach();
}

const BOUNDARY: [i64; 44] = [
    0, 1, 9, 10, 99, 100, 999_999_999, 1_000_000_000, 9_999_999_999, 10_000_000_000,
    99_999_999_999_999_999, 100_000_000_000_000_000, 999_999_999_999_999_999, 1_000_000_000_000_000_000, i64::MAX,
    -1, -9, -10, -11, -99, -100, -101, -999, -1_000, -9_999, -10_000, -99_999, -100_000, -999_999, -1_000_000,
    -999_999_999, -1_000_000_000, -1_000_000_001, -99_999_999_999, -100_000_000_000,
    -999_999_999_999_999, -1_000_000_000_000_000, -99_999_999_999_999_999, -100_000_000_000_000_000,
    -999_999_999_999_999_999, -1_000_000_000_000_000_000, -1_000_000_000_000_000_001, i64::MIN + 1, i64::MIN,
];

/// write_to, offset part: Err exactly when |offset| >= 100h; otherwise bytes written == size()
/// for EVERY i32 offset and sign (seconds fixed to SECS: itoa on a symbolic i64 is beyond CBMC)
fn h_time_write_offset<const SECS: i64, const LIMIT: i32, S: Src>(s: &mut S) {
    let offset = s.i32();
    if LIMIT > 0 { s.assume(offset > -LIMIT && offset < LIMIT); }
    let sign = any_sign(s);
    let t = crate::Time { seconds: SECS, offset, sign };
    let mut c = Count(0);
    let r = t.write_to(&mut c);
    let too_large = offset.unsigned_abs() / 3600 > 99;
    assert!(r.is_err() == too_large, "write_to refuses exactly offsets of 100 hours and more");
    if r.is_ok() {
        assert!(c.0 == t.size(), "bytes written == size()");
        assert!(c.0 == dec_len(SECS) + 6, "bytes written == decimal length + 6");
    }
    s.reach();
}

/// write_to, seconds part: for every digit-count boundary value of seconds and three representative
/// offsets the number of bytes written equals size()
fn h_time_write_seconds<const FROM: usize, const TO: usize, const OFFSET: i32, S: Src>(s: &mut S) {
    let sign = any_sign(s);
    let offset = OFFSET;
    let mut i = FROM;
    while i < TO {
        let t = crate::Time { seconds: BOUNDARY[i], offset, sign };
        let mut c = Count(0);
        let r = t.write_to(&mut c);
        assert!(r.is_ok());
        assert!(c.0 == t.size(), "bytes written == size()");
        assert!(c.0 == dec_len(BOUNDARY[i]) + 6, "bytes written == decimal length + 6");
        i += 1;
    }
    s.reach();
}

harnesses! {
    #[kani::proof_for_contract(crate::Time::size)] #[kani::unwind(22)] time_size_contract => h_time_size_contract::<_>;
    #[kani::proof] #[kani::unwind(4)] time_write_offset_m10 => h_time_write_offset::<-10, 0, _>;
    #[kani::proof] #[kani::unwind(4)] time_write_offset_111h => h_time_write_offset::<-10, 400_000, _>;
    #[kani::proof] #[kani::unwind(4)] time_write_offset_big => h_time_write_offset::<1_000_000_000_000_000_000, 0, _>;
    #[kani::proof] #[kani::unwind(46)] time_write_seconds_0 => h_time_write_seconds::<0, 44, 0, _>;
    #[kani::proof] #[kani::unwind(46)] time_write_seconds_p => h_time_write_seconds::<0, 44, 19800, _>;
    #[kani::proof] #[kani::unwind(46)] time_write_seconds_m => h_time_write_seconds::<0, 44, -34200, _>;
}
replay_test!();
