"""U-time (C01): gix_date::Time::{size, write_to}."""

def K(name, kind, bound, timeout=900, mem_gb=12, tier="quick"):
    return {"name": name, "props": ["C01"], "tier": tier, "kind": kind, "timeout": timeout, "mem_gb": mem_gb, "bound": bound}

KANI = [{
    "mode": "in_crate", "repo_crate": "gix-date",
    "harness_prefix": "verif_kani::kani_proofs::",
    "functions": ["gix_date::Time::size", "gix_date::Time::write_to"],
    "harnesses": [
        K("time_size_contract", "contract", "all i64 seconds x all i32 offsets x both signs (function contract placed on the real Time::size, proof_for_contract)"),
        K("time_write_offset_111h", "bounded", "every offset in (-400000 s, +400000 s) = +-111 h, both signs, seconds = -10", mem_gb=24) | {"args": ["--solver", "kissat"]},
        K("time_write_offset_m10", "bounded", "EVERY i32 offset and both signs, seconds = -10", mem_gb=24, tier="thorough"),
        K("time_write_offset_big", "bounded", "EVERY i32 offset and both signs, seconds = 10^18", tier="off", mem_gb=24),
        K("time_write_seconds_0", "bounded", "44 digit-count boundary values of seconds (0, +-10^k, +-10^k-1, i64::MIN/MAX), offset 0, both signs"),
        K("time_write_seconds_p", "bounded", "44 boundary values of seconds, offset +0530, both signs"),
        K("time_write_seconds_m", "bounded", "44 boundary values of seconds, offset -0930, both signs", tier="thorough"),
    ],
}]

REQ = None
VERUS = [{
    "id": "time.size_ladder",
    "props": ["C01"], "tier": "quick",
    "functions": ["gix_date::Time::size"],
    "parts": [
        {"include": "contracts/time/prelude_declen.rs"},
        {
            "file": "gix-date/src/time/write.rs", "fn": "size",
            "orig_sig": "pub fn size(&self) -> usize",
            "new_sig": "pub fn size(seconds: i64) -> (r: usize)",
            "ensures": "        r == dec_len(seconds as int) + 6",
            "expect_loops": 0,
            "rewrites": [("R1", r"self\.seconds", "seconds", 37)],
            "entry": "    proof { lemma_dec_len_ranges(seconds as int); }",
        },
    ],
}]

ASSUMPTIONS = [
    ("C01", "dependency contract ITOA: itoa::Buffer::format(i64) renders exactly dec_len(n) bytes; exercised at 44 digit-count boundaries only (CBMC cannot execute itoa on a symbolic 64-bit value: 64-bit division + table look-ups)"),
    ("C01", "Time::write_to is checked as two bounded harness families (every offset for fixed seconds; boundary seconds for fixed offsets); that the seconds part and the offset part are written independently is read off the code, not proved"),
]
