// SPEC (property C01): number of characters of the decimal rendering of an integer, '-' included.
pub open spec fn ndigits(a: nat) -> nat
    decreases a
{
    if a < 10 { 1 } else { 1 + ndigits(a / 10) }
}
pub open spec fn dec_len(n: int) -> nat {
    if n >= 0 { ndigits(n as nat) } else { 1 + ndigits((-n) as nat) }
}
pub open spec fn pow10(k: nat) -> nat
    decreases k
{
    if k == 0 { 1 } else { 10 * pow10((k - 1) as nat) }
}
/// 10^(k-1) <= a < 10^k  ==>  ndigits(a) == k
pub proof fn lemma_ndigits(a: nat, k: nat)
    requires k >= 1, (k == 1 || pow10((k - 1) as nat) <= a), a < pow10(k)
    ensures ndigits(a) == k
    decreases k
{
    if k == 1 {
        assert(pow10(1) == 10) by { reveal_with_fuel(pow10, 3); }
    } else {
        assert(pow10(k) == 10 * pow10((k - 1) as nat));
        assert(pow10((k - 1) as nat) >= 10) by { lemma_pow10_ge(( k - 1) as nat); }
        assert(a >= 10);
        if k - 1 >= 2 { assert(pow10((k - 1) as nat) == 10 * pow10((k - 2) as nat)); }
        else { assert(pow10(1) == 10 && pow10(0) == 1) by { reveal_with_fuel(pow10, 3); } }
        lemma_ndigits(a / 10, (k - 1) as nat);
    }
}
pub proof fn lemma_pow10_ge(k: nat)
    requires k >= 1
    ensures pow10(k) >= 10
    decreases k
{
    if k > 1 { lemma_pow10_ge((k - 1) as nat); } else { reveal_with_fuel(pow10, 3); }
}
pub proof fn lemma_pow10_values()
    ensures
        pow10(0) == 1, pow10(1) == 10, pow10(2) == 100, pow10(3) == 1_000, pow10(4) == 10_000, pow10(5) == 100_000,
        pow10(6) == 1_000_000, pow10(7) == 10_000_000, pow10(8) == 100_000_000, pow10(9) == 1_000_000_000,
        pow10(10) == 10_000_000_000, pow10(11) == 100_000_000_000, pow10(12) == 1_000_000_000_000,
        pow10(13) == 10_000_000_000_000, pow10(14) == 100_000_000_000_000, pow10(15) == 1_000_000_000_000_000,
        pow10(16) == 10_000_000_000_000_000, pow10(17) == 100_000_000_000_000_000, pow10(18) == 1_000_000_000_000_000_000,
        pow10(19) == 10_000_000_000_000_000_000,
{
    reveal_with_fuel(pow10, 21);
}
/// digit count of n from the decade |n| lies in -- the facts the ladder in Time::size needs
pub proof fn lemma_dec_len_ranges(n: int)
    ensures
        (0 <= n < 10 ==> dec_len(n) == 1),
        (1 <= -n < 10 ==> dec_len(n) == 2),
        (10 <= n < 100 ==> dec_len(n) == 2),
        (10 <= -n < 100 ==> dec_len(n) == 3),
        (100 <= n < 1_000 ==> dec_len(n) == 3),
        (100 <= -n < 1_000 ==> dec_len(n) == 4),
        (1_000 <= n < 10_000 ==> dec_len(n) == 4),
        (1_000 <= -n < 10_000 ==> dec_len(n) == 5),
        (10_000 <= n < 100_000 ==> dec_len(n) == 5),
        (10_000 <= -n < 100_000 ==> dec_len(n) == 6),
        (100_000 <= n < 1_000_000 ==> dec_len(n) == 6),
        (100_000 <= -n < 1_000_000 ==> dec_len(n) == 7),
        (1_000_000 <= n < 10_000_000 ==> dec_len(n) == 7),
        (1_000_000 <= -n < 10_000_000 ==> dec_len(n) == 8),
        (10_000_000 <= n < 100_000_000 ==> dec_len(n) == 8),
        (10_000_000 <= -n < 100_000_000 ==> dec_len(n) == 9),
        (100_000_000 <= n < 1_000_000_000 ==> dec_len(n) == 9),
        (100_000_000 <= -n < 1_000_000_000 ==> dec_len(n) == 10),
        (1_000_000_000 <= n < 10_000_000_000 ==> dec_len(n) == 10),
        (1_000_000_000 <= -n < 10_000_000_000 ==> dec_len(n) == 11),
        (10_000_000_000 <= n < 100_000_000_000 ==> dec_len(n) == 11),
        (10_000_000_000 <= -n < 100_000_000_000 ==> dec_len(n) == 12),
        (100_000_000_000 <= n < 1_000_000_000_000 ==> dec_len(n) == 12),
        (100_000_000_000 <= -n < 1_000_000_000_000 ==> dec_len(n) == 13),
        (1_000_000_000_000 <= n < 10_000_000_000_000 ==> dec_len(n) == 13),
        (1_000_000_000_000 <= -n < 10_000_000_000_000 ==> dec_len(n) == 14),
        (10_000_000_000_000 <= n < 100_000_000_000_000 ==> dec_len(n) == 14),
        (10_000_000_000_000 <= -n < 100_000_000_000_000 ==> dec_len(n) == 15),
        (100_000_000_000_000 <= n < 1_000_000_000_000_000 ==> dec_len(n) == 15),
        (100_000_000_000_000 <= -n < 1_000_000_000_000_000 ==> dec_len(n) == 16),
        (1_000_000_000_000_000 <= n < 10_000_000_000_000_000 ==> dec_len(n) == 16),
        (1_000_000_000_000_000 <= -n < 10_000_000_000_000_000 ==> dec_len(n) == 17),
        (10_000_000_000_000_000 <= n < 100_000_000_000_000_000 ==> dec_len(n) == 17),
        (10_000_000_000_000_000 <= -n < 100_000_000_000_000_000 ==> dec_len(n) == 18),
        (100_000_000_000_000_000 <= n < 1_000_000_000_000_000_000 ==> dec_len(n) == 18),
        (100_000_000_000_000_000 <= -n < 1_000_000_000_000_000_000 ==> dec_len(n) == 19),
        (1_000_000_000_000_000_000 <= n < 10_000_000_000_000_000_000 ==> dec_len(n) == 19),
        (1_000_000_000_000_000_000 <= -n < 10_000_000_000_000_000_000 ==> dec_len(n) == 20),
{
    lemma_pow10_values();
    if 0 <= n < 10 { lemma_ndigits(n as nat, 1); }
    if 1 <= -n < 10 { lemma_ndigits((-n) as nat, 1); }
    if 10 <= n < 100 { lemma_ndigits(n as nat, 2); }
    if 10 <= -n < 100 { lemma_ndigits((-n) as nat, 2); }
    if 100 <= n < 1_000 { lemma_ndigits(n as nat, 3); }
    if 100 <= -n < 1_000 { lemma_ndigits((-n) as nat, 3); }
    if 1_000 <= n < 10_000 { lemma_ndigits(n as nat, 4); }
    if 1_000 <= -n < 10_000 { lemma_ndigits((-n) as nat, 4); }
    if 10_000 <= n < 100_000 { lemma_ndigits(n as nat, 5); }
    if 10_000 <= -n < 100_000 { lemma_ndigits((-n) as nat, 5); }
    if 100_000 <= n < 1_000_000 { lemma_ndigits(n as nat, 6); }
    if 100_000 <= -n < 1_000_000 { lemma_ndigits((-n) as nat, 6); }
    if 1_000_000 <= n < 10_000_000 { lemma_ndigits(n as nat, 7); }
    if 1_000_000 <= -n < 10_000_000 { lemma_ndigits((-n) as nat, 7); }
    if 10_000_000 <= n < 100_000_000 { lemma_ndigits(n as nat, 8); }
    if 10_000_000 <= -n < 100_000_000 { lemma_ndigits((-n) as nat, 8); }
    if 100_000_000 <= n < 1_000_000_000 { lemma_ndigits(n as nat, 9); }
    if 100_000_000 <= -n < 1_000_000_000 { lemma_ndigits((-n) as nat, 9); }
    if 1_000_000_000 <= n < 10_000_000_000 { lemma_ndigits(n as nat, 10); }
    if 1_000_000_000 <= -n < 10_000_000_000 { lemma_ndigits((-n) as nat, 10); }
    if 10_000_000_000 <= n < 100_000_000_000 { lemma_ndigits(n as nat, 11); }
    if 10_000_000_000 <= -n < 100_000_000_000 { lemma_ndigits((-n) as nat, 11); }
    if 100_000_000_000 <= n < 1_000_000_000_000 { lemma_ndigits(n as nat, 12); }
    if 100_000_000_000 <= -n < 1_000_000_000_000 { lemma_ndigits((-n) as nat, 12); }
    if 1_000_000_000_000 <= n < 10_000_000_000_000 { lemma_ndigits(n as nat, 13); }
    if 1_000_000_000_000 <= -n < 10_000_000_000_000 { lemma_ndigits((-n) as nat, 13); }
    if 10_000_000_000_000 <= n < 100_000_000_000_000 { lemma_ndigits(n as nat, 14); }
    if 10_000_000_000_000 <= -n < 100_000_000_000_000 { lemma_ndigits((-n) as nat, 14); }
    if 100_000_000_000_000 <= n < 1_000_000_000_000_000 { lemma_ndigits(n as nat, 15); }
    if 100_000_000_000_000 <= -n < 1_000_000_000_000_000 { lemma_ndigits((-n) as nat, 15); }
    if 1_000_000_000_000_000 <= n < 10_000_000_000_000_000 { lemma_ndigits(n as nat, 16); }
    if 1_000_000_000_000_000 <= -n < 10_000_000_000_000_000 { lemma_ndigits((-n) as nat, 16); }
    if 10_000_000_000_000_000 <= n < 100_000_000_000_000_000 { lemma_ndigits(n as nat, 17); }
    if 10_000_000_000_000_000 <= -n < 100_000_000_000_000_000 { lemma_ndigits((-n) as nat, 17); }
    if 100_000_000_000_000_000 <= n < 1_000_000_000_000_000_000 { lemma_ndigits(n as nat, 18); }
    if 100_000_000_000_000_000 <= -n < 1_000_000_000_000_000_000 { lemma_ndigits((-n) as nat, 18); }
    if 1_000_000_000_000_000_000 <= n < 10_000_000_000_000_000_000 { lemma_ndigits(n as nat, 19); }
    if 1_000_000_000_000_000_000 <= -n < 10_000_000_000_000_000_000 { lemma_ndigits((-n) as nat, 19); }
}
