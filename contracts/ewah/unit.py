"""U-ewah (C06): EWAH bitmap decoding (used by the index' untracked-cache extension)."""
def H(name, bound, tier="quick", timeout=1800, mem_gb=12):
    return {"name": name, "props": ["C06"], "tier": tier, "kind": "bounded", "bound": bound, "timeout": timeout, "mem_gb": mem_gb}
KANI = [{
    "mode": "external", "functions": ["gix_bitmap::ewah::decode", "gix_bitmap::ewah::Vec::for_each_set_bit", "gix_bitmap::ewah::Vec::num_bits"],
    "harnesses": [
        H("ewah_any_11", "every 11-byte input (truncated header)"),
        H("ewah_any_12", "every 12-byte input (no words)"),
        H("ewah_any_20", "every 20-byte input (1 word); walk stops after 3 set bits"),
        H("ewah_any_28", "every 28-byte input (2 words)"),
        H("ewah_any_36", "every 36-byte input (3 words)", tier="thorough", timeout=3600, mem_gb=16),
    ],
}]
ASSUMPTIONS = []
