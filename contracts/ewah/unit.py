"""U-ewah (C06): EWAH bitmap decoding (used by the index' untracked-cache extension)."""
def H(name, bound, tier="quick", timeout=1800, mem_gb=12):
    return {"name": name, "props": ["C06"], "tier": tier, "kind": "bounded", "bound": bound, "timeout": timeout, "mem_gb": mem_gb}
KANI = [{
    "mode": "external", "functions": ["gix_bitmap::ewah::decode", "gix_bitmap::ewah::Vec::for_each_set_bit", "gix_bitmap::ewah::Vec::num_bits"],
    "harnesses": [
        H("ewah_decode_any_7", "decode() on every 7-byte input"),
        H("ewah_decode_any_11", "decode() on every 11-byte input"),
        H("ewah_decode_any_12", "decode() on every 12-byte input"),
        H("ewah_decode_any_20", "decode() on every 20-byte input"),
        H("ewah_decode_any_28", "decode() on every 28-byte input", tier="thorough"),
        H("ewah_words_0", "every bitmap with 0 words: decode + walk"),
        H("ewah_words_1", "every bitmap with exactly 1 word (any content): decode + walk"),
        H("ewah_words_2", "every bitmap with exactly 2 words: decode + walk", tier="off", timeout=2400),
        H("ewah_words_3", "every bitmap with exactly 3 words: decode + walk", tier="off", timeout=5400, mem_gb=16),
    ],
}]
ASSUMPTIONS = [
    ("C06", "EWAH: the word count of the header is fixed per harness (0..2 quick, 3 thorough); the walk callback stops at the first set bit"),
]
