// U-ewah (C06): gix_bitmap::ewah::decode + Vec::for_each_set_bit on arbitrary bytes never panic.
include!("../../../../engine/src_trait.rs");

/// decode N arbitrary bytes; if a bitmap comes out, walk its set bits (the callback stops the walk after
/// 3 bits so that run lengths of up to 2^38 bits do not have to be unrolled)
fn h_ewah_any<const N: usize, S: Src>(s: &mut S) {
    let data: [u8; N] = s.bytes();
    if let Ok((v, rest)) = gix_bitmap::ewah::decode(&data[..]) {
        assert!(rest.len() <= N);
        let mut calls = 0u32;
        let _ = v.for_each_set_bit(|_idx| { calls += 1; if calls >= 3 { None } else { Some(()) } });
        let _ = v.num_bits();
    }
    s.reach();
}

harnesses! {
    #[kani::proof] #[kani::unwind(66)] ewah_any_11 => h_ewah_any::<11, _>;
    #[kani::proof] #[kani::unwind(66)] ewah_any_12 => h_ewah_any::<12, _>;
    #[kani::proof] #[kani::unwind(66)] ewah_any_20 => h_ewah_any::<20, _>;
    #[kani::proof] #[kani::unwind(66)] ewah_any_28 => h_ewah_any::<28, _>;
    #[kani::proof] #[kani::unwind(66)] ewah_any_36 => h_ewah_any::<36, _>;
}

#[cfg(not(kani))]
fn main() {
    let (name, mut s) = Replay::from_env();
    if !replay_dispatch(&name, &mut s) {
        println!("REPLAY-UNKNOWN-HARNESS {name}");
        std::process::exit(4);
    }
    println!("REPLAY-COMPLETED-WITHOUT-FAILURE reached={}", s.reached);
}
#[cfg(kani)]
fn main() {}
