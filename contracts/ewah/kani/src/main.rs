// U-ewah (C06): gix_bitmap::ewah::decode + Vec::for_each_set_bit on arbitrary bytes never panic.
include!("../../../../engine/src_trait.rs");

/// header level: decode() on N arbitrary bytes never panics and leaves a suffix of the input
fn h_ewah_decode_any<const N: usize, S: Src>(s: &mut S) {
    let data: [u8; N] = s.bytes();
    if let Ok((v, rest)) = gix_bitmap::ewah::decode(&data[..]) {
        assert!(rest.len() <= N);
        let _ = v.num_bits();
    }
    s.reach();
}
/// a bitmap with exactly W words (the word count in the header is fixed per harness: a symbolic count makes CBMC unroll the
/// word-copy loop up to the unwind bound), arbitrary bit count, arbitrary word contents, arbitrary trailing field:
/// decoding succeeds and walking the set bits never panics (the callback stops at the first set bit, so run lengths of up
/// to 2^38 bits need not be unrolled; all-zero literal words are walked in full)
fn h_ewah_words<const W: usize, const N: usize, S: Src>(s: &mut S) {
    let mut data = [0u8; N];
    let nb = s.u32().to_be_bytes();
    data[0] = nb[0]; data[1] = nb[1]; data[2] = nb[2]; data[3] = nb[3];
    let wl = (W as u32).to_be_bytes();
    data[4] = wl[0]; data[5] = wl[1]; data[6] = wl[2]; data[7] = wl[3];
    let mut i = 8;
    while i < N { data[i] = s.u8(); i += 1; }
    let (v, rest) = gix_bitmap::ewah::decode(&data[..]).expect("a complete bitmap decodes");
    assert!(rest.is_empty(), "header + W words + run-length-word field are consumed");
    let _ = v.for_each_set_bit(|_idx| None);
    s.reach();
}

harnesses! {
    #[kani::proof] #[kani::unwind(5)] ewah_decode_any_7 => h_ewah_decode_any::<7, _>;
    #[kani::proof] #[kani::unwind(5)] ewah_decode_any_11 => h_ewah_decode_any::<11, _>;
    #[kani::proof] #[kani::unwind(5)] ewah_decode_any_12 => h_ewah_decode_any::<12, _>;
    #[kani::proof] #[kani::unwind(5)] ewah_decode_any_20 => h_ewah_decode_any::<20, _>;
    #[kani::proof] #[kani::unwind(5)] ewah_decode_any_28 => h_ewah_decode_any::<28, _>;
    #[kani::proof] #[kani::unwind(22)] ewah_words_0 => h_ewah_words::<0, 12, _>;
    #[kani::proof] #[kani::unwind(22)] ewah_words_1 => h_ewah_words::<1, 20, _>;
    #[kani::proof] #[kani::unwind(66)] ewah_words_2 => h_ewah_words::<2, 28, _>;
    #[kani::proof] #[kani::unwind(66)] ewah_words_3 => h_ewah_words::<3, 36, _>;
}

#[cfg(not(kani))]
fn main() {
    let (name, mut s) = Replay::from_env();
    if !replay_dispatch(&name, &mut s) {
        println!("REPLAY-UNKNOWN-HARNESS {name}");
        std::process::exit(4);
    }
    println!("REPLAY-COMPLETED-WITHOUT-FAILURE reached={}", s.reached);
}
#[cfg(kani)]
fn main() {}
