// U-sshargs, classification clause (C34): included into gix-url/src/lib.rs under cfg(any(kani, gix_verif)).
include!(concat!(env!("GIX_VERIF_DIR"), "/engine/src_trait.rs"));

fn ascii_string<const L: usize, S: Src>(s: &mut S) -> (String, [u8; L]) {
    let b: [u8; L] = s.bytes();
    let mut i = 0;
    while i < L { s.assume(b[i] < 0x80); i += 1; }
    // ASCII by assumption, so valid UTF-8 (gix-url forbids unsafe code, hence the checked conversion; L is tiny)
    (String::from_utf8(b.to_vec()).expect("ASCII is UTF-8"), b)
}

/// looks_like_command_line_option(b) <=> b starts with '-'
fn h_looks_like_option<const L: usize, S: Src>(s: &mut S) {
    let b: [u8; L] = s.bytes();
    assert!(looks_like_command_line_option(&b[..]) == (L > 0 && b[0] == b'-'));
    s.reach();
}
/// user_as_argument / host_as_argument: Dangerous exactly for a leading '-', and the *_argument_safe accessors
/// never hand out a value that starts with '-'
fn h_user_host<const L: usize, S: Src>(s: &mut S) {
    let (user, ub) = ascii_string::<L, S>(s);
    let (host, hb) = ascii_string::<L, S>(s);
    let has_user = s.bool();
    let has_host = s.bool();
    let url = Url {
        scheme: Scheme::Ssh,
        user: if has_user { Some(user) } else { None },
        password: None,
        host: if has_host { Some(host) } else { None },
        serialize_alternative_form: false,
        port: None,
        path: "/x".into(),
    };
    match url.user_as_argument() {
        ArgumentSafety::Absent => assert!(!has_user),
        ArgumentSafety::Usable(u) => assert!(has_user && u.as_bytes() == &ub[..] && !(L > 0 && ub[0] == b'-'), "a usable user never starts with '-'"),
        ArgumentSafety::Dangerous(u) => assert!(has_user && u.as_bytes() == &ub[..] && L > 0 && ub[0] == b'-', "only a leading '-' is dangerous"),
    }
    match url.host_as_argument() {
        ArgumentSafety::Absent => assert!(!has_host),
        ArgumentSafety::Usable(h) => assert!(has_host && h.as_bytes() == &hb[..] && !(L > 0 && hb[0] == b'-'), "a usable host never starts with '-'"),
        ArgumentSafety::Dangerous(h) => assert!(has_host && h.as_bytes() == &hb[..] && L > 0 && hb[0] == b'-', "only a leading '-' is dangerous"),
    }
    if let Some(u) = url.user_argument_safe() { assert!(!u.as_bytes().starts_with(b"-")); }
    if let Some(h) = url.host_argument_safe() { assert!(!h.as_bytes().starts_with(b"-")); }
    assert!(url.user_argument_safe().is_some() == (has_user && !(L > 0 && ub[0] == b'-')));
    assert!(url.host_argument_safe().is_some() == (has_host && !(L > 0 && hb[0] == b'-')));
    s.reach();
}
/// path_argument_safe: None exactly when the byte after the leading '/' is '-' (or the path is empty)
fn h_path<const L: usize, S: Src>(s: &mut S) {
    let p: [u8; L] = s.bytes();
    let url = Url { scheme: Scheme::Ssh, user: None, password: None, host: None, serialize_alternative_form: false, port: None, path: p[..].into() };
    let r = url.path_argument_safe();
    let dangerous = L == 0 || (L > 1 && p[1] == b'-');
    assert!(r.is_none() == dangerous, "a path whose first byte after the leading slash is '-' is never handed out");
    if let Some(path) = r { assert!(&path[..] == &p[..], "the path is handed out unchanged"); }
    s.reach();
}

harnesses! {
    #[kani::proof] #[kani::unwind(6)] looks_like_option_0 => h_looks_like_option::<0, _>;
    #[kani::proof] #[kani::unwind(6)] looks_like_option_3 => h_looks_like_option::<3, _>;
    #[kani::proof] #[kani::unwind(6)] user_host_0 => h_user_host::<0, _>;
    #[kani::proof] #[kani::unwind(6)] user_host_1 => h_user_host::<1, _>;
    #[kani::proof] #[kani::unwind(6)] user_host_3 => h_user_host::<3, _>;
    #[kani::proof] #[kani::unwind(6)] path_0 => h_path::<0, _>;
    #[kani::proof] #[kani::unwind(6)] path_1 => h_path::<1, _>;
    #[kani::proof] #[kani::unwind(6)] path_2 => h_path::<2, _>;
    #[kani::proof] #[kani::unwind(6)] path_4 => h_path::<4, _>;
}
replay_test!();
