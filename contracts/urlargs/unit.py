"""U-sshargs, classification clause (C34): URL parts that could be read as options are never handed out as usable."""
F = ["gix_url::looks_like_command_line_option", "gix_url::Url::user_as_argument", "gix_url::Url::host_as_argument", "gix_url::Url::user_argument_safe",
     "gix_url::Url::host_argument_safe", "gix_url::Url::path_argument_safe"]
def H(name, bound, kind="full"):
    return {"name": name, "props": ["C34"], "tier": "quick", "kind": kind, "bound": bound, "timeout": 900, "mem_gb": 12, "functions": F}
KANI = [{
    "mode": "in_crate", "repo_crate": "gix-url", "harness_prefix": "verif_kani::kani_proofs::",
    "harnesses": [
        H("looks_like_option_0", "the empty slice"), H("looks_like_option_3", "every 3-byte slice (only byte 0 is read: loop-free, complete for the decision)"),
        H("user_host_0", "empty user/host, present or absent"), H("user_host_1", "every 1-byte ASCII user x host, present or absent"),
        H("user_host_3", "every 3-byte ASCII user x host (only the first byte is read)"),
        H("path_0", "empty path"), H("path_1", "every 1-byte path"), H("path_2", "every 2-byte path"), H("path_4", "every 4-byte path (only byte 1 is read)"),
    ],
}]
ASSUMPTIONS = [
    ("C34", "classification functions read one byte; the harness lengths are therefore complete for the decision although formally length-bounded. User/host are ASCII in the harness (UTF-8 validation of symbolic bytes is unaffordable); the functions do not inspect anything but the first byte"),
    ("C34", "UNDECIDED: that ssh/mod.rs, program_kind.rs (prepare_invocation) and file.rs route every URL-derived part through these functions (call-site audit, format!/OsString/gix_command code that CBMC does not get through), and gix_command's own shell handling"),
]
