"""Kani harnesses inside gix-object: tree order + lookup (C03), mode text (C01/C03), tree size + loose header (C01), byte-level parsers (C06)."""
ORD = ["<gix_object::tree::EntryRef as Ord>::cmp", "<gix_object::tree::Entry as Ord>::cmp", "gix_object::tree::editor::cmp_entry_with_name", "gix_object::tree::EntryMode::is_tree"]
def H(name, props, kind, bound, tier="quick", timeout=900, mem_gb=12, functions=None):
    return {"name": name, "props": props, "tier": tier, "kind": kind, "bound": bound, "timeout": timeout, "mem_gb": mem_gb, "functions": functions or ORD}
def c(a, b, tier="quick"):
    return H("cmp_%d_%d" % (a, b), ["C03"], "bounded", "all NUL- and slash-free names of %d and %d bytes x all u16 modes" % (a, b), tier=tier)
KANI = [{
    "mode": "in_crate", "repo_crate": "gix-object",
    "harness_prefix": "tree::editor::verif_kani::kani_proofs::",
    "harnesses": [c(1, 1), c(1, 2), c(2, 1), c(2, 2), c(3, 2), c(2, 3), c(3, 3), c(4, 4), c(4, 3), c(6, 5), c(6, 6), c(8, 7), c(8, 8), c(12, 11, "thorough")] + [
        H("bisect_%d" % n, ["C03"], "bounded", "trees of %d entries (names of 1-2 bytes, any u16 mode) sorted by the real order x any probe name x file/dir" % n,
          tier="quick", timeout=1800, functions=["gix_object::TreeRef::bisect_entry"]) for n in (1, 2, 3, 4)] + [H("bisect_%d" % n, ["C03"], "bounded", "trees of %d entries (names of 1-2 bytes, any u16 mode) sorted by the real order x any probe name x file/dir" % n, tier=("quick" if n == 5 else "thorough"), timeout=3600, functions=["gix_object::TreeRef::bisect_entry"]) for n in (5, 6)] + [
        H("mode_roundtrip", ["C01", "C03"], "full", "every u16 mode", functions=["gix_object::tree::EntryMode::as_bytes", "<gix_object::tree::EntryMode as TryFrom<&[u8]>>::try_from", "gix_object::tree::ref_iter::mode_from_decimal", "gix_object::tree::EntryMode::kind", "gix_object::tree::EntryMode::is_tree"]),
        H("tree_size_1", ["C01"], "bounded", "trees of 1 entry (name 1-2 bytes, any u16 mode, any first id byte): size()==bytes written, TreeRefIter decodes it back", tier="off", functions=["<gix_object::TreeRef as WriteTo>::write_to", "<gix_object::TreeRef as WriteTo>::size", "<gix_object::Tree as WriteTo>::write_to", "<gix_object::Tree as WriteTo>::size", "gix_object::tree::ref_iter::decode::fast_entry"]),
        H("tree_size_2", ["C01"], "bounded", "trees of 2 sorted entries", tier="off", timeout=1800, functions=["<gix_object::TreeRef as WriteTo>::write_to", "<gix_object::TreeRef as WriteTo>::size", "<gix_object::Tree as WriteTo>::write_to", "<gix_object::Tree as WriteTo>::size", "gix_object::tree::ref_iter::decode::fast_entry"]),
        H("loose_header_u16", ["C01"], "bounded", "4 kinds x every size < 2^16", tier="off", functions=["gix_object::encode::loose_header", "gix_object::decode::loose_header"]),
        H("tree_iter_any_12", ["C06"], "bounded", "TreeRefIter over every 12-byte input", tier="off", functions=["gix_object::TreeRefIter::next", "gix_object::tree::ref_iter::decode::fast_entry"]),
        H("tree_iter_any_28", ["C06"], "bounded", "TreeRefIter over every 28-byte input (room for one whole entry)", tier="off", timeout=1800, functions=["gix_object::TreeRefIter::next", "gix_object::tree::ref_iter::decode::fast_entry"]),
        H("mode_any_8", ["C06"], "bounded", "EntryMode::try_from over every 8-byte input", functions=["<gix_object::tree::EntryMode as TryFrom<&[u8]>>::try_from"]),
        H("loose_header_any_8", ["C06"], "bounded", "decode::loose_header over every 8-byte input", functions=["gix_object::decode::loose_header"]),
        H("loose_header_any_12", ["C06"], "bounded", "decode::loose_header over every 12-byte input", tier="thorough", timeout=1800, functions=["gix_object::decode::loose_header"]),
    ],
}]
ASSUMPTIONS = [
    ("C03", "git's tree order is taken from its documentation (base_name_compare: names compared bytewise as if a tree's name ended in '/'); 'trees hash to the same id as git' follows only modulo SHA-1 (trusted)"),
    ("C03", "the order is decided at the first differing byte, so short names exercise every branch of the comparison -- an argument, not a proof: the harnesses are bounded"),
    ("C01", "error conversions into io::Error (message text only) are stubbed in the tree harnesses: <io::Error as From<tree::write::Error>>::from"),
    ("C01", "commit and tag size()/write_to() (gix-object commit/write.rs, tag/write.rs, gix-actor signature) are NOT under contract: their io::Error / BString plumbing did not get through CBMC within the budget; only Time::size (proved), tree and loose-header clauses are decided"),
    ("C01", "decoding commits/tags back to equal values goes through winnow parsers (see C02): undecided. SHA-1 itself is trusted"),
]
