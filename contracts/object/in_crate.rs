// U-treeord / U-mode / U-objsize (C03, C01, C06): included into gix-object/src/tree/editor.rs under cfg(any(kani, gix_verif)).
include!(concat!(env!("GIX_VERIF_DIR"), "/engine/src_trait.rs"));

use crate::tree::{EntryMode, EntryRef};
use crate::WriteTo;
use bstr::ByteSlice;
use std::cmp::Ordering;

#[allow(dead_code)]
fn no_cpuid(_leaf: u32, _sub: u32) -> std::arch::x86_64::CpuidResult { std::arch::x86_64::CpuidResult { eax: 0, ebx: 0, ecx: 0, edx: 0 } }
#[allow(dead_code)]
fn no_cpuid1(_leaf: u32) -> std::arch::x86_64::CpuidResult { std::arch::x86_64::CpuidResult { eax: 0, ebx: 0, ecx: 0, edx: 0 } }
/// error conversions into io::Error are not under contract (message only); stubbed to keep CBMC out of `dyn Error` drop glue
#[allow(dead_code)]
fn stub_tree_err(_e: crate::tree::write::Error) -> std::io::Error { std::io::Error::from(std::io::ErrorKind::Other) }

/// SPEC (git's documented tree order): compare names bytewise as if a tree's name had '/' appended.
/// S_ISDIR(mode) <=> (mode & 0o170000) == 0o040000.
fn spec_is_tree(mode: u16) -> bool { mode & 0o170000 == 0o040000 }
fn spec_key_byte(name: &[u8], tree: bool, i: usize) -> Option<u8> {
    if i < name.len() { Some(name[i]) } else if i == name.len() && tree { Some(b'/') } else { None }
}
fn spec_cmp(a: &[u8], a_tree: bool, b: &[u8], b_tree: bool) -> Ordering {
    // lexicographic comparison of a ++ ['/' if tree] with b ++ ['/' if tree]
    let mut i = 0;
    loop {
        match (spec_key_byte(a, a_tree, i), spec_key_byte(b, b_tree, i)) {
            (None, None) => return Ordering::Equal,
            (None, Some(_)) => return Ordering::Less,
            (Some(_), None) => return Ordering::Greater,
            (Some(x), Some(y)) => { if x < y { return Ordering::Less; } if x > y { return Ordering::Greater; } }
        }
        i += 1;
    }
}
fn name_ok(n: &[u8]) -> bool { let mut i = 0; while i < n.len() { if n[i] == 0 || n[i] == b'/' { return false; } i += 1; } true }

/// Ord for EntryRef and Entry == git's order, all modes, all NUL- and slash-free names of lengths A and B
fn h_cmp<const A: usize, const B: usize, S: Src>(s: &mut S) {
    let n1: [u8; A] = s.bytes();
    let n2: [u8; B] = s.bytes();
    s.assume(name_ok(&n1) && name_ok(&n2));
    let (m1, m2) = (s.u16(), s.u16());
    let id = gix_hash::ObjectId::null(gix_hash::Kind::Sha1);
    let e1 = EntryRef { mode: EntryMode(m1), filename: n1[..].as_bstr(), oid: &id };
    let e2 = EntryRef { mode: EntryMode(m2), filename: n2[..].as_bstr(), oid: &id };
    let want = spec_cmp(&n1, spec_is_tree(m1), &n2, spec_is_tree(m2));
    assert!(e1.cmp(&e2) == want, "EntryRef order is git's tree order");
    let o1 = crate::tree::Entry { mode: EntryMode(m1), filename: n1[..].into(), oid: id };
    let o2 = crate::tree::Entry { mode: EntryMode(m2), filename: n2[..].into(), oid: id };
    assert!(o1.cmp(&o2) == want, "Entry order is git's tree order");
    let is_tree2 = s.bool();
    assert!(cmp_entry_with_name(&o1, n2[..].as_bstr(), is_tree2) == spec_cmp(&n1, spec_is_tree(m1), &n2, is_tree2), "editor's name comparison is git's tree order");
    s.reach();
}

/// bisect_entry on a tree sorted by the real order finds exactly the entry with that name and tree-ness
fn h_bisect<const N: usize, const FLAT: usize, S: Src>(s: &mut S) {
    let id = gix_hash::ObjectId::null(gix_hash::Kind::Sha1);
    // names live in one flat buffer, entry i owns flat[2i..2i+len(i)], len in {1, 2}
    let flat: [u8; FLAT] = s.bytes();
    let mut lens = [0usize; N];
    let mut modes = [0u16; N];
    let mut i = 0;
    while i < N {
        lens[i] = if s.bool() { 1 } else { 2 };
        modes[i] = s.u16();
        s.assume(flat[2 * i] != 0 && flat[2 * i] != b'/' && flat[2 * i + 1] != 0 && flat[2 * i + 1] != b'/');
        i += 1;
    }
    let mut entries: Vec<EntryRef<'_>> = Vec::with_capacity(N);
    i = 0;
    while i < N {
        let fname: &[u8] = if lens[i] == 1 { &flat[2 * i..2 * i + 1] } else { &flat[2 * i..2 * i + 2] };
        entries.push(EntryRef { mode: EntryMode(modes[i]), filename: fname.as_bstr(), oid: &id });
        if i > 0 { s.assume(entries[i - 1].cmp(&entries[i]) == Ordering::Less); }
        i += 1;
    }
    let tree = crate::TreeRef { entries };
    // harness self-check: the entries carry the names they were given (an earlier version that kept the names in a
    // 2-dimensional array produced CBMC counter-examples in which they did not -- not reproducible natively)
    { let mut k = 0; while k < N { assert!(name_ok(tree.entries[k].filename) && tree.entries[k].filename.len() == lens[k], "harness self-check: entry names are the generated names"); k += 1; } }
    let probe: [u8; 2] = s.bytes();
    let plen = if s.bool() { 1 } else { 2 };
    s.assume(name_ok(&probe));
    let is_dir = s.bool();
    let pname: &[u8] = if plen == 1 { &probe[..1] } else { &probe[..2] };
    let found = tree.bisect_entry(pname.as_bstr(), is_dir);
    // linear scan
    let mut want: Option<usize> = None;
    i = 0;
    while i < N {
        if &flat[2 * i..2 * i + lens[i]] == pname && spec_is_tree(modes[i]) == is_dir { want = Some(i); }
        i += 1;
    }
    match (found, want) {
        (Some(e), Some(k)) => assert!(e.filename == flat[2 * k..2 * k + lens[k]].as_bstr() && e.mode.0 == modes[k], "the entry found is the one of that name and kind"),
        (None, None) => {}
        (Some(_), None) => assert!(false, "bisect_entry found an entry that a linear scan does not"),
        (None, Some(_)) => assert!(false, "bisect_entry missed an entry of that name and kind"),
    }
    s.reach();
}

/// mode text round trip for every u16: as_bytes is the octal rendering and EntryMode::try_from(text ++ ' ') inverts it
fn h_mode_roundtrip<S: Src>(s: &mut S) {
    let m = s.u16();
    let mut backing = [0u8; 6];
    let txt = EntryMode(m).as_bytes(&mut backing);
    // octal rendering without leading zeros ("0" for zero)
    let mut want = [0u8; 6]; let mut n = 0; let mut v = m;
    if v == 0 { want[0] = b'0'; n = 1; } else { while v > 0 { n += 1; v /= 8; } let mut k = n; v = m; while k > 0 { k -= 1; want[k] = b'0' + (v % 8) as u8; v /= 8; } }
    assert!(txt.len() == n && &txt[..] == &want[..n], "as_bytes is the octal rendering");
    let mut with_space = [b' '; 7];
    let mut i = 0; while i < n { with_space[i] = want[i]; i += 1; }
    let back = EntryMode::try_from(&with_space[..n + 1]);
    assert!(back == Ok(EntryMode(m)), "try_from inverts as_bytes");
    // kind()/is_tree() agree with S_ISDIR
    assert!(EntryMode(m).is_tree() == spec_is_tree(m));
    assert!((EntryMode(m).kind() == crate::tree::EntryKind::Tree) == spec_is_tree(m));
    s.reach();
}

/// an io::Write that only counts
struct Count(usize);
impl std::io::Write for Count {
    fn write(&mut self, b: &[u8]) -> std::io::Result<usize> { self.0 += b.len(); Ok(b.len()) }
    fn write_all(&mut self, b: &[u8]) -> std::io::Result<()> { self.0 += b.len(); Ok(()) }
    fn flush(&mut self) -> std::io::Result<()> { Ok(()) }
}
struct Buf { b: [u8; 64], n: usize }
impl std::io::Write for Buf {
    fn write(&mut self, d: &[u8]) -> std::io::Result<usize> { self.write_all(d)?; Ok(d.len()) }
    fn write_all(&mut self, d: &[u8]) -> std::io::Result<()> { let mut i = 0; while i < d.len() { self.b[self.n] = d[i]; self.n += 1; i += 1; } Ok(()) }
    fn flush(&mut self) -> std::io::Result<()> { Ok(()) }
}

/// TreeRef / Tree: size() == bytes written, and the written bytes decode back to the same entries
fn h_tree_size<const N: usize, const FLAT: usize, S: Src>(s: &mut S) {
    let flat: [u8; FLAT] = s.bytes();
    let mut ids = [[0u8; 20]; N];
    let mut lens = [0usize; N];
    let mut modes = [0u16; N];
    let mut i = 0;
    while i < N {
        lens[i] = if s.bool() { 1 } else { 2 };
        modes[i] = s.u16();
        ids[i][0] = s.u8();
        s.assume(flat[2 * i] != 0 && flat[2 * i] != b'/' && flat[2 * i + 1] != 0 && flat[2 * i + 1] != b'/');
        i += 1;
    }
    let oids: Vec<gix_hash::ObjectId> = ids.iter().map(|b| gix_hash::ObjectId::from(*b)).collect();
    let mut entries: Vec<EntryRef<'_>> = Vec::with_capacity(N);
    i = 0;
    while i < N {
        let fname: &[u8] = if lens[i] == 1 { &flat[2 * i..2 * i + 1] } else { &flat[2 * i..2 * i + 2] };
        entries.push(EntryRef { mode: EntryMode(modes[i]), filename: fname.as_bstr(), oid: &oids[i] });
        if i > 0 { s.assume(entries[i - 1].cmp(&entries[i]) == Ordering::Less); }
        i += 1;
    }
    let tree = crate::TreeRef { entries };
    { let mut k = 0; while k < N { assert!(name_ok(tree.entries[k].filename) && tree.entries[k].filename.len() == lens[k], "harness self-check: entry names are the generated names"); k += 1; } }
    let mut out = Buf { b: [0u8; 64], n: 0 };
    tree.write_to(&mut out).expect("NUL-free names are writable");
    assert!(tree.size() == out.n as u64, "TreeRef::size() == bytes written");
    // size is also what the format says: per entry octal mode, SP, name, NUL, 20-byte id
    let mut want = 0usize;
    i = 0;
    while i < N { let mut d = 1; let mut v = modes[i] >> 3; while v > 0 { d += 1; v >>= 3; } want += d + 1 + lens[i] + 1 + 20; i += 1; }
    assert!(out.n == want, "entry = <octal mode> SP <name> NUL <20-byte id>");
    let owned: crate::Tree = tree.clone().into();
    let mut c = Count(0);
    owned.write_to(&mut c).expect("writable");
    assert!(owned.size() == c.0 as u64 && c.0 == out.n, "Tree::size() == bytes written");
    // decode back (only canonical modes survive the decoder's mode filter)
    let mut all_known = true;
    i = 0;
    while i < N { let m = modes[i] as u32; if !(m == 0o40000 || m == 0o120000 || m == 0o160000 || m & 0o100000 == 0o100000) { all_known = false; } i += 1; }
    if all_known {
        let mut it = crate::TreeRefIter::from_bytes(&out.b[..out.n]);
        i = 0;
        while i < N {
            let e = it.next().expect("entry").expect("decodes");
            assert!(e == tree.entries[i], "written entry decodes to an equal entry");
            i += 1;
        }
        assert!(it.next().is_none());
    }
    s.reach();
}

/// loose header: `<kind> <decimal size>\0`, decode inverts encode
fn h_loose_header<S: Src>(s: &mut S) {
    let k = s.u8();
    s.assume(k < 4);
    let kind = match k { 0 => crate::Kind::Tree, 1 => crate::Kind::Blob, 2 => crate::Kind::Commit, _ => crate::Kind::Tag };
    let size = s.u16() as u64;
    let h = crate::encode::loose_header(kind, size);
    let name: &[u8] = match k { 0 => b"tree", 1 => b"blob", 2 => b"commit", _ => b"tag" };
    assert!(h.len() >= name.len() + 3 && &h[..name.len()] == name && h[name.len()] == b' ' && h[h.len() - 1] == 0, "layout is '<kind> <size>\\0'");
    // digits
    let digits = &h[name.len() + 1..h.len() - 1];
    let mut v: u64 = 0; let mut i = 0;
    while i < digits.len() { assert!(digits[i].is_ascii_digit()); v = v * 10 + (digits[i] - b'0') as u64; i += 1; }
    assert!(v == size && (digits.len() == 1 || digits[0] != b'0'), "size is rendered in decimal without leading zeros");
    let (k2, s2, consumed) = crate::decode::loose_header(&h[..]).expect("decodes");
    assert!(k2 == kind && s2 == size && consumed == h.len(), "decode::loose_header inverts encode::loose_header");
    s.reach();
}

// ---------------------------------------------------------------- C06: arbitrary bytes never panic
fn h_tree_iter_any<const N: usize, S: Src>(s: &mut S) {
    let data: [u8; N] = s.bytes();
    let mut it = crate::TreeRefIter::from_bytes(&data[..]);
    let mut n = 0;
    while let Some(r) = it.next() { if r.is_err() { break; } n += 1; if n > N { break; } }
    s.reach();
}
fn h_mode_any<const N: usize, S: Src>(s: &mut S) {
    let data: [u8; N] = s.bytes();
    let _ = EntryMode::try_from(&data[..]);
    s.reach();
}
fn h_loose_header_any<const N: usize, S: Src>(s: &mut S) {
    let data: [u8; N] = s.bytes();
    let _ = crate::decode::loose_header(&data[..]);
    s.reach();
}

harnesses! {
    #[kani::proof] #[kani::unwind(8)] cmp_1_1 => h_cmp::<1, 1, _>;
    #[kani::proof] #[kani::unwind(8)] cmp_1_2 => h_cmp::<1, 2, _>;
    #[kani::proof] #[kani::unwind(8)] cmp_2_1 => h_cmp::<2, 1, _>;
    #[kani::proof] #[kani::unwind(8)] cmp_2_2 => h_cmp::<2, 2, _>;
    #[kani::proof] #[kani::unwind(8)] cmp_3_2 => h_cmp::<3, 2, _>;
    #[kani::proof] #[kani::unwind(8)] cmp_2_3 => h_cmp::<2, 3, _>;
    #[kani::proof] #[kani::unwind(8)] cmp_3_3 => h_cmp::<3, 3, _>;
    #[kani::proof] #[kani::unwind(10)] cmp_4_4 => h_cmp::<4, 4, _>;
    #[kani::proof] #[kani::unwind(10)] cmp_4_3 => h_cmp::<4, 3, _>;
    #[kani::proof] #[kani::unwind(12)] cmp_6_5 => h_cmp::<6, 5, _>;
    #[kani::proof] #[kani::unwind(12)] cmp_6_6 => h_cmp::<6, 6, _>;
    #[kani::proof] #[kani::unwind(14)] cmp_8_7 => h_cmp::<8, 7, _>;
    #[kani::proof] #[kani::unwind(14)] cmp_8_8 => h_cmp::<8, 8, _>;
    #[kani::proof] #[kani::unwind(18)] cmp_12_11 => h_cmp::<12, 11, _>;
    #[kani::proof] #[kani::unwind(8)] bisect_1 => h_bisect::<1, 2, _>;
    #[kani::proof] #[kani::unwind(8)] bisect_2 => h_bisect::<2, 4, _>;
    #[kani::proof] #[kani::unwind(8)] bisect_3 => h_bisect::<3, 6, _>;
    #[kani::proof] #[kani::unwind(8)] bisect_4 => h_bisect::<4, 8, _>;
    #[kani::proof] #[kani::unwind(9)] bisect_5 => h_bisect::<5, 10, _>;
    #[kani::proof] #[kani::unwind(10)] bisect_6 => h_bisect::<6, 12, _>;
    #[kani::proof] #[kani::unwind(9)] mode_roundtrip => h_mode_roundtrip::<_>;
    #[kani::proof] #[kani::unwind(23)] #[kani::stub(std::arch::x86_64::__cpuid_count, no_cpuid)] #[kani::stub(std::arch::x86_64::__cpuid, no_cpuid1)]
    #[kani::stub(<std::io::Error as std::convert::From<crate::tree::write::Error>>::from, stub_tree_err)] tree_size_1 => h_tree_size::<1, 2, _>;
    #[kani::proof] #[kani::unwind(23)] #[kani::stub(std::arch::x86_64::__cpuid_count, no_cpuid)] #[kani::stub(std::arch::x86_64::__cpuid, no_cpuid1)]
    #[kani::stub(<std::io::Error as std::convert::From<crate::tree::write::Error>>::from, stub_tree_err)] tree_size_2 => h_tree_size::<2, 4, _>;
    #[kani::proof] #[kani::unwind(8)] #[kani::stub(std::arch::x86_64::__cpuid_count, no_cpuid)] #[kani::stub(std::arch::x86_64::__cpuid, no_cpuid1)] loose_header_u16 => h_loose_header::<_>;
    #[kani::proof] #[kani::unwind(30)] #[kani::stub(std::arch::x86_64::__cpuid_count, no_cpuid)] #[kani::stub(std::arch::x86_64::__cpuid, no_cpuid1)] tree_iter_any_28 => h_tree_iter_any::<28, _>;
    #[kani::proof] #[kani::unwind(30)] #[kani::stub(std::arch::x86_64::__cpuid_count, no_cpuid)] #[kani::stub(std::arch::x86_64::__cpuid, no_cpuid1)] tree_iter_any_12 => h_tree_iter_any::<12, _>;
    #[kani::proof] #[kani::unwind(10)] mode_any_8 => h_mode_any::<8, _>;
    #[kani::proof] #[kani::unwind(14)] #[kani::stub(std::arch::x86_64::__cpuid_count, no_cpuid)] #[kani::stub(std::arch::x86_64::__cpuid, no_cpuid1)] loose_header_any_8 => h_loose_header_any::<8, _>;
    #[kani::proof] #[kani::unwind(14)] #[kani::stub(std::arch::x86_64::__cpuid_count, no_cpuid)] #[kani::stub(std::arch::x86_64::__cpuid, no_cpuid1)] loose_header_any_12 => h_loose_header_any::<12, _>;
}
replay_test!();
