"""U-fan: fan-out bisection lookups (C09, C14) -- Verus proof on the extracted real functions."""

REQ = """        ids.len() < 0x8000_0000,
        sorted(ids@),
        fan_ok(fan, ids@)"""

ENTRY = """    proof {
        lemma_count_boundary(ids@, first_byte as int);
        if first_byte != 0 { lemma_count_boundary(ids@, first_byte as int - 1); }
        assert forall|k: int| 0 <= k < lower_bound implies lex_lt(ids[k]@, id@) by { lemma_first_byte(ids[k]@, id@); }
        assert forall|k: int| upper_bound <= k < ids.len() implies lex_lt(id@, ids[k]@) by { lemma_first_byte(id@, ids[k]@); }
        assert(lower_bound <= upper_bound) by {
            if lower_bound > upper_bound { let k = upper_bound as int; assert(lex_lt(ids[k]@, id@)); assert(lex_lt(id@, ids[k]@)); lemma_lex_trans(id@, ids[k]@, id@); lemma_lex_irrefl(id@); }
        }
    }"""

INV = """        invariant
            lower_bound <= upper_bound <= ids.len(),
            ids.len() < 0x8000_0000,
            sorted(ids@),
            forall|k: int| 0 <= k < lower_bound ==> lex_lt(ids[k]@, id@),
            forall|k: int| upper_bound <= k < ids.len() ==> lex_lt(id@, ids[k]@),
        decreases upper_bound - lower_bound,"""

MID = """        proof {
            if lex_lt(id@, ids[mid as int]@) {
                assert forall|k: int| mid <= k < ids.len() implies lex_lt(id@, ids[k]@) by { if k > mid { lemma_lex_trans(id@, ids[mid as int]@, ids[k]@); } }
            }
            if lex_lt(ids[mid as int]@, id@) {
                assert forall|k: int| 0 <= k < mid + 1 implies lex_lt(ids[k]@, id@) by { if k < mid { lemma_lex_trans(ids[k]@, ids[mid as int]@, id@); } }
            }
        }"""

TAIL = """    proof { assert forall|k: int| 0 <= k < ids.len() implies ids[k]@ != id@ by { lemma_lex_irrefl(id@); } }"""

ENS = """        match r {
            Some(i) => i < ids.len() && ids[i as int]@ == id@,
            None => forall|k: int| 0 <= k < ids.len() ==> ids[k]@ != id@,
        }"""

VERUS = [
    {
        "id": "fan.pack_index_lookup",
        "props": ["C09"],
        "tier": "quick",
        "functions": ["gix_pack::index::access::lookup (shared by index::File::lookup and multi_index::File::lookup)"],
        "parts": [
            {"include": "contracts/fan/prelude_oid.rs"},
            {
                "file": "gix-pack/src/index/access.rs", "fn": "lookup",
                "orig_sig": "pub(crate) fn lookup<'a>( id: &gix_hash::oid, fan: &[u32; FAN_LEN], oid_at_index: &dyn Fn(EntryIndex) -> &'a gix_hash::oid, ) -> Option<EntryIndex>",
                "new_sig": "pub fn lookup(id: &oid, fan: &[u32; FAN_LEN], ids: &[oid]) -> (r: Option<EntryIndex>)",
                "requires": REQ, "ensures": ENS,
                "expect_loops": 1,
                "loops": {1: INV},
                "rewrites": [("R2", r"oid_at_index\((\w+)\)", r"&ids[\1 as usize]", 1)],
                "inserts": [
                    {"before": "while lower_bound < upper_bound", "text": ENTRY},
                    {"after": "let mid_sha = oid_at_index(mid);", "text": MID},
                    {"before": "None\n", "text": TAIL, "nth": 1, "unique": True},
                ],
            },
        ],
    },
    {
        "id": "fan.commitgraph_lookup",
        "props": ["C14"],
        "tier": "quick",
        "functions": ["gix_commitgraph::File::lookup_inner (behind File::lookup)"],
        "parts": [
            {"include": "contracts/fan/prelude_oid.rs"},
            {
                "file": "gix-commitgraph/src/file/access.rs", "fn": "lookup_inner",
                "orig_sig": "fn lookup_inner(&self, id: &gix_hash::oid) -> Option<file::Position>",
                "new_sig": "pub fn lookup_inner(fan: &[u32; FAN_LEN], ids: &[oid], id: &oid) -> (r: Option<u32>)",
                "requires": REQ, "ensures": ENS,
                "expect_loops": 1,
                "loops": {1: INV},
                "rewrites": [
                    ("R2+R6", r"self\.id_at\(file::Position\((\w+)\)\)", r"&ids[\1 as usize]", 1),
                    ("R1", r"self\.fan\[", r"fan[", 2),
                    ("R6", r"file::Position\((\w+)\)", r"\1", 1),
                ],
                "inserts": [
                    {"before": "while lower_bound < upper_bound", "text": ENTRY},
                    {"after": "let mid_sha = self.id_at(file::Position(mid));", "text": MID},
                    {"before": "None\n", "text": TAIL},
                ],
            },
        ],
    },
]

KANI = []
