// TRUSTED PRELUDE (not extracted): model of `gix_hash::oid` as a 20-byte string whose `cmp` is the
// lexicographic byte order and whose `first_byte` is byte 0. In /repo `oid` is `#[repr(transparent)]
// struct oid { bytes: [u8] }` with `#[derive(Ord)]` (= slice order) and `first_byte() = self.bytes[0]`.
#[allow(non_camel_case_types)]
pub struct oid { pub bytes: [u8; 20] }

pub open spec fn lex_lt(a: Seq<u8>, b: Seq<u8>) -> bool
    decreases a.len()
{
    if b.len() == 0 { false }
    else if a.len() == 0 { true }
    else if a[0] != b[0] { a[0] < b[0] }
    else { lex_lt(a.drop_first(), b.drop_first()) }
}

impl oid {
    pub open spec fn view(&self) -> Seq<u8> { self.bytes@ }
    #[verifier::external_body]
    pub fn first_byte(&self) -> (r: u8)
        ensures r == self.bytes[0]
    { self.bytes[0] }
    #[verifier::external_body]
    pub fn cmp(&self, other: &oid) -> (r: std::cmp::Ordering)
        ensures
            (r is Less) <==> lex_lt(self@, other@),
            (r is Equal) <==> self@ == other@,
            (r is Greater) <==> lex_lt(other@, self@),
    { self.bytes.cmp(&other.bytes) }
}

pub type EntryIndex = u32;
pub const FAN_LEN: usize = 256;

// ---- specification vocabulary
/// the table of ids is strictly ascending (what both index formats require)
pub open spec fn sorted(ids: Seq<oid>) -> bool {
    forall|i: int, j: int| 0 <= i < j < ids.len() ==> lex_lt(ids[i]@, ids[j]@)
}
/// number of ids whose first byte is <= b
pub open spec fn count_le(ids: Seq<oid>, b: int) -> int
    decreases ids.len()
{
    if ids.len() == 0 { 0 } else { count_le(ids.drop_last(), b) + if ids.last().bytes[0] as int <= b { 1int } else { 0int } }
}
/// the fan-out table is what the format documents: fan[b] = number of ids with first byte <= b
pub open spec fn fan_ok(fan: &[u32; 256], ids: Seq<oid>) -> bool {
    forall|b: int| 0 <= b < 256 ==> fan[b] as int == count_le(ids, b)
}

// ---- lemmas
pub proof fn lemma_lex_irrefl(a: Seq<u8>)
    ensures !lex_lt(a, a)
    decreases a.len()
{
    if a.len() > 0 { lemma_lex_irrefl(a.drop_first()); }
}
pub proof fn lemma_lex_trans(a: Seq<u8>, b: Seq<u8>, c: Seq<u8>)
    requires lex_lt(a, b), lex_lt(b, c)
    ensures lex_lt(a, c)
    decreases a.len()
{
    if a.len() > 0 && b.len() > 0 && c.len() > 0 {
        if a[0] == b[0] && b[0] == c[0] {
            lemma_lex_trans(a.drop_first(), b.drop_first(), c.drop_first());
        }
    }
}
pub proof fn lemma_first_byte(a: Seq<u8>, b: Seq<u8>)
    requires a.len() > 0, b.len() > 0
    ensures a[0] < b[0] ==> lex_lt(a, b),
            lex_lt(a, b) ==> a[0] <= b[0],
{}
/// for a sorted table, count_le(ids, b) is the boundary index of first bytes <= b
pub proof fn lemma_count_boundary(ids: Seq<oid>, b: int)
    requires sorted(ids)
    ensures
        0 <= count_le(ids, b) <= ids.len(),
        forall|k: int| 0 <= k < ids.len() ==> ((k < count_le(ids, b)) <==> (#[trigger] ids[k].bytes[0] as int <= b)),
    decreases ids.len()
{
    if ids.len() > 0 {
        let pre = ids.drop_last();
        assert(sorted(pre)) by {
            assert forall|i: int, j: int| 0 <= i < j < pre.len() implies lex_lt(pre[i]@, pre[j]@) by {
                assert(pre[i] == ids[i]); assert(pre[j] == ids[j]);
            }
        }
        lemma_count_boundary(pre, b);
        assert forall|k: int| 0 <= k < ids.len() implies ((k < count_le(ids, b)) <==> (#[trigger] ids[k].bytes[0] as int <= b)) by {
            let last = ids.len() - 1;
            if k < last {
                assert(pre[k] == ids[k]);
                assert(lex_lt(ids[k]@, ids[last]@));
                lemma_first_byte(ids[k]@, ids[last]@);
            }
            assert forall|m: int| 0 <= m < last implies #[trigger] ids[m].bytes[0] <= ids[last].bytes[0] by {
                assert(lex_lt(ids[m]@, ids[last]@));
                lemma_first_byte(ids[m]@, ids[last]@);
            }
            if ids[last].bytes[0] as int <= b {
                if pre.len() > 0 { let m = pre.len() - 1; assert(pre[m] == ids[m]); assert(pre[m].bytes[0] as int <= b); assert(m < count_le(pre, b)); }
            }
        }
    }
}
