"""U-ansic (C57, C06) and the quoting clause of U-sshargs (C34)."""
def H(name, props, bound, tier="quick", timeout=900, mem_gb=12, functions=None):
    return {"name": name, "props": props, "tier": (tier if name.startswith("unquoted") else "off"), "kind": "bounded", "bound": bound, "timeout": timeout, "mem_gb": mem_gb,
            "functions": functions or ["gix_quote::ansi_c::undo"]}
SH = {"p": "plain", "e": "two-char escape", "o": "octal escape"}
def q(name, shape, r, tier="quick"):
    return H("quoted_%s_r%d" % (name, r), ["C57"], "undo(cquote(s) ++ rest): s = [%s] (every byte of each class), rest = every %d-byte string" % (", ".join(SH[c] for c in shape), r), tier=tier, timeout=1800)
KANI = [{
    "mode": "external",
    "harnesses": [
        H("unquoted_0", ["C06"], "the empty input"),
        H("unquoted_3", ["C06"], "every 3-byte input not starting with '\"'"),
        H("unquoted_5", ["C06"], "every 5-byte input not starting with '\"'", tier="thorough"),
        H("any_1", ["C06"], "every 1-byte input (no panic)"),
        H("any_2", ["C06"], "every 2-byte input (no panic)"),
        H("any_3", ["C06"], "every 3-byte input (no panic)", timeout=1800),
        H("any_4", ["C06"], "every 4-byte input (no panic)", tier="thorough", timeout=3600, mem_gb=20),
        H("quoted_empty_r0", ["C57"], "the quoted empty string"),
        H("quoted_empty_r1", ["C57"], "the quoted empty string + every 1-byte rest"),
        q("p", "p", 0), q("e", "e", 0), q("o", "o", 0), q("p", "p", 1), q("e", "e", 1), q("o", "o", 1),
    ] + [q(n, n, 2, tier="thorough") for n in ("pp", "ep", "op", "pe", "ee", "oe", "po", "eo", "oo")]
      + [H("single_%d" % n, ["C34"], "gix_quote::single on every %d-byte string, read back by a POSIX-sh word-splitting/unquoting spec" % n,
           tier="quick" if n <= 2 else "thorough", timeout=1800 if n > 2 else 900, mem_gb=16 if n > 2 else 12, functions=["gix_quote::single"]) for n in range(0, 5)],
}]
# MEASURED INFEASIBLE (tier "off", kept for the record): every harness that executes the quoted branch of ansi_c::undo or
# gix_quote::single on symbolic bytes (BString building with symbolic lengths, error construction) -- with bstr's byteset search
# replaced by a scalar contract they still time out (600 s for 1-2 symbolic bytes). See DESIGN.md, C57 / C34.
ASSUMPTIONS = [
    ("C06", "gix_quote::ansi_c::undo is decided only for input that does not start with a double quote (returned unchanged); the quoted branch is beyond CBMC here"),
    ("C57", "cquote is git's documented C-style quoting (quote_c_style: \\a \\b \\t \\n \\v \\f \\r \\\" \\\\, octal for other bytes < 0x20, 0x7f and >= 0x80) written as a spec function; bounded: quoted strings of <= 1 (quick) / 2 (thorough) source bytes followed by <= 1 / 2 arbitrary bytes"),
    ("C34", "the POSIX-sh reading of a quoted word is a spec interpreter (contracts/quote/kani/src/main.rs: sh_one_word_is); gix_command's own shell handling and the call sites in ssh/file transports are undecided"),
]
