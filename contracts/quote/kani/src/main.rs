// U-ansic (C57, C06) and the quoting clause of U-sshargs (C34): gix_quote::ansi_c::undo, gix_quote::single.
include!("../../../../engine/src_trait.rs");
use bstr::ByteSlice;

/// dependency contract MEMCHR: memchr::memchr2(a, b, h) is the position of the first byte of h equal to a or b
/// (the real implementation dispatches to SSE2/AVX2 code that CBMC cannot execute within the budget)
#[allow(dead_code)]
fn spec_memchr2(n1: u8, n2: u8, h: &[u8]) -> Option<usize> {
    let mut i = 0;
    while i < h.len() { if h[i] == n1 || h[i] == n2 { return Some(i); } i += 1; }
    None
}
/// dependency contract BYTESET: bstr's `find_byteset` (bstr::byteset::find) returns the position of the first byte of the
/// haystack that is a member of the byteset. Its real body dispatches to the memchr crate's SSE2/AVX2 routines, which CBMC
/// cannot execute within the budget (and Kani applied only two of three stubs for memchr/memchr2/memchr3).
#[allow(dead_code)]
fn spec_byteset_find(haystack: &[u8], byteset: &[u8]) -> Option<usize> {
    let mut i = 0;
    while i < haystack.len() {
        let mut k = 0;
        while k < byteset.len() { if haystack[i] == byteset[k] { return Some(i); } k += 1; }
        i += 1;
    }
    None
}
#[allow(dead_code)]
fn spec_memchr(n1: u8, h: &[u8]) -> Option<usize> {
    let mut i = 0;
    while i < h.len() { if h[i] == n1 { return Some(i); } i += 1; }
    None
}
#[allow(dead_code)]
fn spec_memchr3(n1: u8, n2: u8, n3: u8, h: &[u8]) -> Option<usize> {
    let mut i = 0;
    while i < h.len() { if h[i] == n1 || h[i] == n2 || h[i] == n3 { return Some(i); } i += 1; }
    None
}
#[allow(dead_code)]
fn no_cpuid(_leaf: u32, _sub: u32) -> std::arch::x86_64::CpuidResult { std::arch::x86_64::CpuidResult { eax: 0, ebx: 0, ecx: 0, edx: 0 } }
#[allow(dead_code)]
fn no_cpuid1(_leaf: u32) -> std::arch::x86_64::CpuidResult { std::arch::x86_64::CpuidResult { eax: 0, ebx: 0, ecx: 0, edx: 0 } }

/// SPEC: git's quote_c_style() for one byte. class 0: the byte itself; class 1: two-character escape;
/// class 2: backslash + three octal digits (every other byte < 0x20, 0x7f and every byte >= 0x80).
fn cq_class(b: u8) -> u8 {
    match b {
        7 | 8 | 9 | 10 | 11 | 12 | 13 | b'"' | b'\\' => 1,
        0..=0x1f | 0x7f..=0xff => 2,
        _ => 0,
    }
}
fn cq_put(b: u8, out: &mut [u8], at: usize) -> usize {
    match cq_class(b) {
        0 => { out[at] = b; 1 }
        1 => {
            out[at] = b'\\';
            out[at + 1] = match b { 7 => b'a', 8 => b'b', 9 => b't', 10 => b'n', 11 => b'v', 12 => b'f', 13 => b'r', b'"' => b'"', _ => b'\\' };
            2
        }
        _ => { out[at] = b'\\'; out[at + 1] = b'0' + (b >> 6); out[at + 2] = b'0' + ((b >> 3) & 7); out[at + 3] = b'0' + (b & 7); 4 }
    }
}

/// undo(cquote(s) ++ rest) == (s, len(cquote(s)));  the shape (class of each byte of s) is fixed per harness so that
/// the input length N = 2 + sum(len(class)) + R is a constant; bytes are symbolic within their class.
fn h_quoted<const L: usize, const SHAPE: usize, const R: usize, const N: usize, S: Src>(s: &mut S) {
    let orig: [u8; L] = s.bytes();
    let mut input = [0u8; N];
    input[0] = b'"';
    let mut w = 1; let mut i = 0; let mut sh = SHAPE;
    while i < L {
        s.assume(cq_class(orig[i]) == (sh % 3) as u8);
        sh /= 3;
        w += cq_put(orig[i], &mut input, w);
        i += 1;
    }
    input[w] = b'"';
    w += 1;
    let qlen = w;
    let rest: [u8; R] = s.bytes();
    i = 0;
    while i < R { input[w] = rest[i]; w += 1; i += 1; }
    assert!(w == N);
    let (out, consumed) = gix_quote::ansi_c::undo(input[..].as_bstr()).expect("git's quoting is accepted");
    assert!(consumed == qlen, "consumed bytes == length of the quoted form");
    assert!(out.as_ref() == orig[..].as_bstr(), "unquoting returns the original bytes");
    s.reach();
}
/// input not starting with a double quote is returned unchanged (borrowed) with its full length
fn h_unquoted<const N: usize, S: Src>(s: &mut S) {
    let input: [u8; N] = s.bytes();
    if N > 0 { s.assume(input[0] != b'"'); }
    let (out, consumed) = gix_quote::ansi_c::undo(input[..].as_bstr()).expect("unquoted input is accepted");
    assert!(consumed == N && out.as_ref() == input[..].as_bstr());
    assert!(matches!(out, std::borrow::Cow::Borrowed(_)));
    s.reach();
}
/// C06: arbitrary bytes never panic
fn h_any<const N: usize, S: Src>(s: &mut S) {
    let input: [u8; N] = s.bytes();
    let _ = gix_quote::ansi_c::undo(input[..].as_bstr());
    s.reach();
}

// ---------------------------------------------------------------- gix_quote::single (C34)
/// SPEC: POSIX sh word splitting + quote removal on `q` yields exactly one word equal to `want`.
/// Outside quotes a backslash makes the next byte literal; unquoted blanks, a dangling backslash or an
/// unterminated quote make it fail. ('!' is literal for sh; bash history expansion is avoided by escaping it.)
fn sh_one_word_is(q: &[u8], want: &[u8]) -> bool {
    let mut i = 0; let mut o = 0; let mut in_q = false;
    while i < q.len() {
        let c = q[i];
        if in_q {
            if c == b'\'' { in_q = false; } else { if o >= want.len() || want[o] != c { return false; } o += 1; }
        } else if c == b'\'' {
            in_q = true;
        } else if c == b'\\' {
            i += 1;
            if i >= q.len() { return false; }
            if o >= want.len() || want[o] != q[i] { return false; }
            o += 1;
        } else if c == b' ' || c == b'\t' || c == b'\n' || c == b';' || c == b'&' || c == b'|' || c == b'<' || c == b'>'
            || c == b'(' || c == b')' || c == b'$' || c == b'`' || c == b'"' || c == b'*' || c == b'?' || c == b'[' || c == b'#' || c == b'~' || c == b'!' {
            return false; // an unquoted metacharacter: not "one word with its bytes unchanged"
        } else {
            if o >= want.len() || want[o] != c { return false; }
            o += 1;
        }
        i += 1;
    }
    !in_q && o == want.len()
}
fn h_single<const L: usize, S: Src>(s: &mut S) {
    let v: [u8; L] = s.bytes();
    let q = gix_quote::single(v[..].as_bstr());
    assert!(q.len() >= L + 2 && q[0] == b'\'' && q[q.len() - 1] == b'\'', "wrapped in single quotes");
    assert!(sh_one_word_is(&q[..], &v[..]), "the shell reads the quoted form as exactly one word with the original bytes");
    s.reach();
}

harnesses! {
    #[kani::proof] #[kani::unwind(12)] unquoted_0 => h_unquoted::<0, _>;
    #[kani::proof] #[kani::unwind(12)] unquoted_3 => h_unquoted::<3, _>;
    #[kani::proof] #[kani::unwind(12)] unquoted_5 => h_unquoted::<5, _>;
    #[kani::proof] #[kani::unwind(12)] #[kani::stub(bstr::byteset::find, spec_byteset_find)] any_1 => h_any::<1, _>;
    #[kani::proof] #[kani::unwind(12)] #[kani::stub(bstr::byteset::find, spec_byteset_find)] any_2 => h_any::<2, _>;
    #[kani::proof] #[kani::unwind(12)] #[kani::stub(bstr::byteset::find, spec_byteset_find)] any_3 => h_any::<3, _>;
    #[kani::proof] #[kani::unwind(12)] #[kani::stub(bstr::byteset::find, spec_byteset_find)] any_4 => h_any::<4, _>;
    #[kani::proof] #[kani::unwind(12)] #[kani::stub(bstr::byteset::find, spec_byteset_find)] quoted_empty_r0 => h_quoted::<0, 0, 0, 2, _>;
    #[kani::proof] #[kani::unwind(12)] #[kani::stub(bstr::byteset::find, spec_byteset_find)] quoted_empty_r1 => h_quoted::<0, 0, 1, 3, _>;
    #[kani::proof] #[kani::unwind(5)] #[kani::stub(bstr::byteset::find, spec_byteset_find)] quoted_p_r0 => h_quoted::<1, 0, 0, 3, _>;
    #[kani::proof] #[kani::unwind(12)] #[kani::stub(bstr::byteset::find, spec_byteset_find)] quoted_e_r0 => h_quoted::<1, 1, 0, 4, _>;
    #[kani::proof] #[kani::unwind(12)] #[kani::stub(bstr::byteset::find, spec_byteset_find)] quoted_o_r0 => h_quoted::<1, 2, 0, 6, _>;
    #[kani::proof] #[kani::unwind(12)] #[kani::stub(bstr::byteset::find, spec_byteset_find)] quoted_p_r1 => h_quoted::<1, 0, 1, 4, _>;
    #[kani::proof] #[kani::unwind(12)] #[kani::stub(bstr::byteset::find, spec_byteset_find)] quoted_e_r1 => h_quoted::<1, 1, 1, 5, _>;
    #[kani::proof] #[kani::unwind(12)] #[kani::stub(bstr::byteset::find, spec_byteset_find)] quoted_o_r1 => h_quoted::<1, 2, 1, 7, _>;
    #[kani::proof] #[kani::unwind(14)] #[kani::stub(bstr::byteset::find, spec_byteset_find)] quoted_pp_r2 => h_quoted::<2, 0, 2, 6, _>;
    #[kani::proof] #[kani::unwind(14)] #[kani::stub(bstr::byteset::find, spec_byteset_find)] quoted_ep_r2 => h_quoted::<2, 1, 2, 7, _>;
    #[kani::proof] #[kani::unwind(14)] #[kani::stub(bstr::byteset::find, spec_byteset_find)] quoted_op_r2 => h_quoted::<2, 2, 2, 9, _>;
    #[kani::proof] #[kani::unwind(14)] #[kani::stub(bstr::byteset::find, spec_byteset_find)] quoted_pe_r2 => h_quoted::<2, 3, 2, 7, _>;
    #[kani::proof] #[kani::unwind(14)] #[kani::stub(bstr::byteset::find, spec_byteset_find)] quoted_ee_r2 => h_quoted::<2, 4, 2, 8, _>;
    #[kani::proof] #[kani::unwind(14)] #[kani::stub(bstr::byteset::find, spec_byteset_find)] quoted_oe_r2 => h_quoted::<2, 5, 2, 10, _>;
    #[kani::proof] #[kani::unwind(14)] #[kani::stub(bstr::byteset::find, spec_byteset_find)] quoted_po_r2 => h_quoted::<2, 6, 2, 9, _>;
    #[kani::proof] #[kani::unwind(14)] #[kani::stub(bstr::byteset::find, spec_byteset_find)] quoted_eo_r2 => h_quoted::<2, 7, 2, 10, _>;
    #[kani::proof] #[kani::unwind(14)] #[kani::stub(bstr::byteset::find, spec_byteset_find)] quoted_oo_r2 => h_quoted::<2, 8, 2, 12, _>;
    #[kani::proof] #[kani::unwind(12)] #[kani::stub(bstr::byteset::find, spec_byteset_find)] single_0 => h_single::<0, _>;
    #[kani::proof] #[kani::unwind(5)] #[kani::stub(bstr::byteset::find, spec_byteset_find)] single_1 => h_single::<1, _>;
    #[kani::proof] #[kani::unwind(14)] #[kani::stub(bstr::byteset::find, spec_byteset_find)] single_2 => h_single::<2, _>;
    #[kani::proof] #[kani::unwind(18)] #[kani::stub(bstr::byteset::find, spec_byteset_find)] single_3 => h_single::<3, _>;
    #[kani::proof] #[kani::unwind(22)] #[kani::stub(bstr::byteset::find, spec_byteset_find)] single_4 => h_single::<4, _>;
}

#[cfg(not(kani))]
fn main() {
    let (name, mut s) = Replay::from_env();
    if !replay_dispatch(&name, &mut s) {
        println!("REPLAY-UNKNOWN-HARNESS {name}");
        std::process::exit(4);
    }
    println!("REPLAY-COMPLETED-WITHOUT-FAILURE reached={}", s.reached);
}
#[cfg(kani)]
fn main() {}
