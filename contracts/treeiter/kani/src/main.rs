// C06: gix_object::TreeRefIter (decode::fast_entry, mode_from_decimal) on arbitrary bytes never panics.
// External crate so that the memchr dependency can be put under its scalar contract (gix-object does not depend on
// memchr directly, and the SSE2 search it dispatches to for haystacks of 16 bytes and more does not finish in CBMC).
include!("../../../../engine/src_trait.rs");

/// dependency contract MEMCHR1: memchr::memchr(n, h) is the position of the first byte of h equal to n
#[allow(dead_code)]
fn spec_memchr(n1: u8, h: &[u8]) -> Option<usize> {
    let mut i = 0;
    while i < h.len() { if h[i] == n1 { return Some(i); } i += 1; }
    None
}

/// iterate the entries of N arbitrary bytes: every step yields an entry or an error, never a panic; the iterator
/// terminates after at most N steps; an entry that is yielded has the documented shape
fn h_tree_iter_any<const N: usize, S: Src>(s: &mut S) {
    let data: [u8; N] = s.bytes();
    let mut it = gix_object::TreeRefIter::from_bytes(&data[..]);
    let mut n = 0;
    while let Some(r) = it.next() {
        match r {
            Ok(e) => { assert!(e.oid.as_bytes().len() == 20 && !e.filename.contains(&0), "an entry has a NUL-free name and a 20-byte id"); }
            Err(_) => break,
        }
        n += 1;
        assert!(n <= N, "the iterator consumes input at every step");
    }
    s.reach();
}

#[allow(dead_code)]
fn spec_memchr2(n1: u8, n2: u8, h: &[u8]) -> Option<usize> { let mut i = 0; while i < h.len() { if h[i] == n1 || h[i] == n2 { return Some(i); } i += 1; } None }
#[allow(dead_code)]
fn spec_memchr3(n1: u8, n2: u8, n3: u8, h: &[u8]) -> Option<usize> { let mut i = 0; while i < h.len() { if h[i] == n1 || h[i] == n2 || h[i] == n3 { return Some(i); } i += 1; } None }

#[allow(dead_code)]
fn spec_memrchr(n1: u8, h: &[u8]) -> Option<usize> { let mut i = h.len(); while i > 0 { i -= 1; if h[i] == n1 { return Some(i); } } None }

#[allow(dead_code)]
fn spec_find_byte(h: &[u8], n1: u8) -> Option<usize> { spec_memchr(n1, h) }

#[allow(dead_code)]
fn no_cpuid(_leaf: u32, _sub: u32) -> std::arch::x86_64::CpuidResult { std::arch::x86_64::CpuidResult { eax: 0, ebx: 0, ecx: 0, edx: 0 } }
#[allow(dead_code)]
fn no_cpuid1(_leaf: u32) -> std::arch::x86_64::CpuidResult { std::arch::x86_64::CpuidResult { eax: 0, ebx: 0, ecx: 0, edx: 0 } }

harnesses! {
    #[kani::proof] #[kani::unwind(14)] #[kani::stub(std::arch::x86_64::__cpuid_count, no_cpuid)] #[kani::stub(std::arch::x86_64::__cpuid, no_cpuid1)] tree_iter_any_12 => h_tree_iter_any::<12, _>;
    #[kani::proof] #[kani::unwind(24)] #[kani::stub(std::arch::x86_64::__cpuid_count, no_cpuid)] #[kani::stub(std::arch::x86_64::__cpuid, no_cpuid1)] tree_iter_any_22 => h_tree_iter_any::<22, _>;
    #[kani::proof] #[kani::unwind(24)] #[kani::stub(std::arch::x86_64::__cpuid_count, no_cpuid)] #[kani::stub(std::arch::x86_64::__cpuid, no_cpuid1)] tree_iter_any_23 => h_tree_iter_any::<23, _>;
    #[kani::proof] #[kani::unwind(30)] #[kani::stub(std::arch::x86_64::__cpuid_count, no_cpuid)] #[kani::stub(std::arch::x86_64::__cpuid, no_cpuid1)] tree_iter_any_28 => h_tree_iter_any::<28, _>;
    #[kani::proof] #[kani::unwind(32)] #[kani::stub(std::arch::x86_64::__cpuid_count, no_cpuid)] #[kani::stub(std::arch::x86_64::__cpuid, no_cpuid1)] tree_iter_any_30 => h_tree_iter_any::<30, _>;
}

#[cfg(not(kani))]
fn main() {
    let (name, mut s) = Replay::from_env();
    if !replay_dispatch(&name, &mut s) {
        println!("REPLAY-UNKNOWN-HARNESS {name}");
        std::process::exit(4);
    }
    println!("REPLAY-COMPLETED-WITHOUT-FAILURE reached={}", s.reached);
}
#[cfg(kani)]
fn main() {}
