"""C06: tree entry iterator on arbitrary bytes (external crate: memchr under its scalar contract)."""
def H(name, bound, tier="quick", timeout=1500, mem_gb=12):
    return {"name": name, "props": ["C06"], "tier": "off", "kind": "bounded", "bound": bound, "timeout": timeout, "mem_gb": mem_gb}
KANI = [{
    "mode": "external", "functions": ["gix_object::TreeRefIter::next", "gix_object::tree::ref_iter::decode::fast_entry", "gix_object::tree::ref_iter::mode_from_decimal"],
    "harnesses": [
        H("tree_iter_any_12", "every 12-byte input"),
        H("tree_iter_any_22", "every 22-byte input (shortest complete entry is 23 bytes: cut inside the id)"),
        H("tree_iter_any_23", "every 23-byte input (one minimal entry)"),
        H("tree_iter_any_28", "every 28-byte input", timeout=2400),
        H("tree_iter_any_30", "every 30-byte input", tier="thorough", timeout=3600),
    ],
}]
# MEASURED INFEASIBLE (tier off): gix-object finds the NUL with bstr::find_byte -> memchr::memchr. Kani did not apply the stub for
# memchr::memchr (it applies all but one of several memchr stubs; a provided trait method cannot be stubbed), without cpuid stubs the
# run ends in an unsupported construct, and with them the SSE2 search does not finish (600 s for 12 bytes).
ASSUMPTIONS = [
    ("C06", "dependency contract MEMCHR1: memchr::memchr is the position of the first matching byte (its SSE2/AVX2 implementations are not executed)"),
]
