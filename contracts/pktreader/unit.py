"""C29/C06: framing step of the blocking packet-line reader (StreamingPeekableIter::read_line_inner), all 2^32 prefixes."""
KANI = [{
    "mode": "in_crate", "repo_crate": "gix-packetline", "harness_prefix": "read::blocking_io::verif_kani::kani_proofs::",
    "cargo_args": ["--features", "blocking-io"],
    "harnesses": [
        {"name": "read_line_inner_any_prefix", "props": ["C29", "C06"], "tier": "quick", "kind": "full", "timeout": 1800, "mem_gb": 16,
         "bound": "every 4-byte length prefix into the reader's 65520-byte line buffer (loop-free apart from the 2-byte hex decode); payload bytes are not read",
         "functions": ["gix_packetline::StreamingPeekableIter::read_line_inner"]},
    ],
}]
ASSUMPTIONS = [
    ("C29", "reader: only the framing step read_line_inner (prefix -> payload slice of the line buffer) is under contract; peeking, delimiters, ERR handling, chunk-independence and side-band demultiplexing stay undecided"),
]
