// C29 / C06, reader framing step: included into gix-packetline/src/read/blocking_io.rs under cfg(any(kani, gix_verif)).
// `StreamingPeekableIter::read_line_inner` reads the 4-byte length prefix and then the announced payload into the line buffer
// (MAX_LINE_LEN = 65520 bytes). Contract, for EVERY 4-byte prefix: it returns a value or an error and never panics; a
// prefix announcing more payload than a line may carry (65516 bytes) is an error, like in decode::streaming.
include!(concat!(env!("GIX_VERIF_DIR"), "/engine/src_trait.rs"));

/// hands out the symbolic prefix for the 4-byte read and leaves the buffer untouched for the payload read
struct PrefixOnly { prefix: [u8; 4], reads: usize }
impl std::io::Read for PrefixOnly {
    fn read(&mut self, buf: &mut [u8]) -> std::io::Result<usize> { self.read_exact(buf)?; Ok(buf.len()) }
    fn read_exact(&mut self, buf: &mut [u8]) -> std::io::Result<()> {
        if self.reads == 0 && buf.len() == 4 { buf[0] = self.prefix[0]; buf[1] = self.prefix[1]; buf[2] = self.prefix[2]; buf[3] = self.prefix[3]; }
        self.reads += 1;
        Ok(())
    }
}
fn hexval(c: u8) -> Option<u32> {
    match c { b'0'..=b'9' => Some((c - b'0') as u32), b'a'..=b'f' => Some((c - b'a' + 10) as u32), b'A'..=b'F' => Some((c - b'A' + 10) as u32), _ => None }
}

fn h_read_line_inner_any_prefix<S: Src>(s: &mut S) {
    let prefix: [u8; 4] = s.bytes();
    let mut rd = PrefixOnly { prefix, reads: 0 };
    // the reader type allocates exactly this buffer (vec![0; MAX_LINE_LEN])
    let mut buf = vec![0u8; MAX_LINE_LEN];
    let r = StreamingPeekableIter::<PrefixOnly>::read_line_inner(&mut rd, &mut buf[..]);
    let v = match (hexval(prefix[0]), hexval(prefix[1]), hexval(prefix[2]), hexval(prefix[3])) {
        (Some(a), Some(b), Some(c), Some(d)) => Some((a << 12) | (b << 8) | (c << 4) | d),
        _ => None,
    };
    match r {
        Ok(Ok(PacketLineRef::Data(d))) => { let n = v.expect("hex"); assert!(n >= 5 && n <= 65520 && d.len() == n as usize - 4, "a data line carries prefix-4 bytes and at most 65516"); }
        Ok(Ok(_)) => assert!(matches!(v, Some(0) | Some(1) | Some(2)), "control lines"),
        Ok(Err(_)) => assert!(v.is_none() || v == Some(3) || v == Some(4) || v.map_or(false, |n| n > 65520), "errors: non-hex, 3, 4, or an oversized length"),
        Err(_) => assert!(false, "the test reader never fails"),
    }
    s.reach();
}

harnesses! {
    #[kani::proof] #[kani::unwind(8)]
    #[kani::stub(std::arch::x86_64::__cpuid_count, no_cpuid)] #[kani::stub(std::arch::x86_64::__cpuid, no_cpuid1)]
    read_line_inner_any_prefix => h_read_line_inner_any_prefix::<_>;
}
#[allow(dead_code)]
fn no_cpuid(_leaf: u32, _sub: u32) -> std::arch::x86_64::CpuidResult { std::arch::x86_64::CpuidResult { eax: 0, ebx: 0, ecx: 0, edx: 0 } }
#[allow(dead_code)]
fn no_cpuid1(_leaf: u32) -> std::arch::x86_64::CpuidResult { std::arch::x86_64::CpuidResult { eax: 0, ebx: 0, ecx: 0, edx: 0 } }
replay_test!();
