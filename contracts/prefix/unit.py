"""U-prefix (C05): object ids, hex forms and prefixes."""
FUNCS = ["gix_hash::Prefix::new", "gix_hash::Prefix::cmp_oid", "gix_hash::Prefix::from_hex", "<gix_hash::Prefix as From<ObjectId>>::from",
         "gix_hash::oid::hex_to_buf", "gix_hash::ObjectId::from_hex", "gix_hash::Prefix::hex_len", "gix_hash::Prefix::as_oid"]

def H(name, tier="quick", kind="full", bound="", timeout=600, mem_gb=8, **kw):
    d = {"name": name, "props": ["C05"], "tier": tier, "kind": kind, "bound": bound, "timeout": timeout, "mem_gb": mem_gb}
    d.update(kw)
    return d

KANI = [{
    "mode": "external",
    "functions": FUNCS,
    "harnesses": [
        H("prefix_new_cmp", bound="all 2^160 ids x all usize hex_len x all candidate ids; loops bounded by 40 nibbles"),
        H("prefix_from_oid", bound="all ids x all candidates"),
        H("hexc_encode_1", bound="faster_hex scalar path, every 1-byte input"),
        H("hexc_encode_2", bound="faster_hex scalar path, every 2-byte input"),
        H("hexc_decode_1", bound="faster_hex scalar path, every 2-char input"),
        H("hexc_decode_2", bound="faster_hex scalar path, every 4-char input"),
        H("oid_hex_roundtrip", bound="all ids; faster_hex replaced by HEXC reference"),
        H("oid_from_hex_any", bound="all 40-byte inputs; faster_hex replaced by HEXC reference"),
        H("hex_display_len", bound="all ids, all hex_len 4..=40"),
    ] + [H("prefix_from_hex_%d" % n, tier=("quick" if n in (3, 4, 5, 7, 8, 39, 40, 41) else "thorough"),
           bound="every string of %d hex digits (either case)" % n) for n in (3, 4, 5, 7, 8, 39, 40, 41)]
      + [H("prefix_from_hex_invalid_7"), H("prefix_from_hex_invalid_8")],
}]

ASSUMPTIONS = [
    ("C05", "HEXC: faster_hex::hex_encode/hex_decode behave per byte like the reference implementation in contracts/prefix/kani/src/main.rs; CHECKED by Kani on faster_hex's scalar fallback for all 1- and 2-byte inputs (cpuid stubbed to 'no SIMD'), ASSUMED for longer inputs and for the SSE/AVX code paths"),
    ("C05", "fmt::Formatter plumbing of HexDisplay/Display for Prefix is trusted; checked is the slice expression it prints"),
]
