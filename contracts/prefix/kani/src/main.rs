// U-prefix (C05): gix_hash::Prefix::{new, cmp_oid, from_hex}, From<ObjectId> for Prefix,
// oid::hex_to_buf, ObjectId::from_hex -- against a nibble-level specification.
include!("../../../../engine/src_trait.rs");

use gix_hash::{ObjectId, Prefix};
use std::cmp::Ordering;

/// nibble `i` of a byte string (high nibble first)
fn nib(b: &[u8], i: usize) -> u8 {
    if i % 2 == 0 { b[i / 2] >> 4 } else { b[i / 2] & 0x0f }
}

/// SPEC: lexicographic order of the first `n` nibbles
fn spec_cmp(a: &[u8], b: &[u8], n: usize) -> Ordering {
    let mut i = 0;
    while i < n {
        let (x, y) = (nib(a, i), nib(b, i));
        if x < y { return Ordering::Less; }
        if x > y { return Ordering::Greater; }
        i += 1;
    }
    Ordering::Equal
}

/// Prefix::new: Err exactly outside 4..=40; otherwise first n nibbles copied, rest zero; hex_len == n;
/// cmp_oid is the lexicographic order on the first n nibbles, Equal iff those nibbles agree.
fn h_prefix_new_cmp<S: Src>(s: &mut S) {
    let idb: [u8; 20] = s.bytes();
    let id = ObjectId::from(idb);
    let n = s.usize();
    let r = Prefix::new(&id, n);
    if n < 4 || n > 40 {
        assert!(r.is_err(), "Prefix::new must refuse hex_len outside 4..=40");
        s.reach();
        return;
    }
    let p = r.expect("Prefix::new must accept 4..=40");
    assert!(p.hex_len() == n, "hex_len() is the requested length");
    let pb = p.as_oid().as_bytes();
    assert!(pb.len() == 20);
    let i = s.usize();
    s.assume(i < 40);
    if i < n {
        assert!(nib(pb, i) == nib(&idb, i), "prefix nibble equals id nibble");
    } else {
        assert!(nib(pb, i) == 0, "nibbles past hex_len are zero");
    }
    let cb: [u8; 20] = s.bytes();
    let c = ObjectId::from(cb);
    let ord = p.cmp_oid(&c);
    assert!(ord == spec_cmp(&idb, &cb, n), "cmp_oid is nibble-lexicographic over the first hex_len nibbles");
    // a prefix matches the id it was made from
    assert!(p.cmp_oid(&id) == Ordering::Equal, "prefix matches its own id");
    s.reach();
}

/// From<ObjectId>: hex_len 40, Equal only to itself
fn h_prefix_from_oid<S: Src>(s: &mut S) {
    let idb: [u8; 20] = s.bytes();
    let id = ObjectId::from(idb);
    let p = Prefix::from(id);
    assert!(p.hex_len() == 40);
    assert!(p.as_oid().as_bytes() == &idb[..]);
    let cb: [u8; 20] = s.bytes();
    let c = ObjectId::from(cb);
    assert!((p.cmp_oid(&c) == Ordering::Equal) == (cb == idb), "full-length prefix equals only itself");
    assert!(p.cmp_oid(&c) == idb[..].cmp(&cb[..]));
    s.reach();
}

// ---------------------------------------------------------------- hex dependency contract HEXC
fn hexdigit(n: u8) -> u8 { if n < 10 { b'0' + n } else { b'a' + (n - 10) } }
fn hexval(c: u8) -> Option<u8> {
    match c {
        b'0'..=b'9' => Some(c - b'0'),
        b'a'..=b'f' => Some(c - b'a' + 10),
        b'A'..=b'F' => Some(c - b'A' + 10),
        _ => None,
    }
}

/// HEXC reference implementations (used as Kani stubs for faster_hex on inputs longer than 2 bytes)
#[allow(dead_code)]
fn ref_hex_encode<'a>(src: &[u8], dst: &'a mut [u8]) -> Result<&'a mut str, faster_hex::Error> {
    if dst.len() != src.len() * 2 { return Err(faster_hex::Error::InvalidLength(src.len() * 2)); }
    let mut i = 0;
    while i < src.len() {
        dst[2 * i] = hexdigit(src[i] >> 4);
        dst[2 * i + 1] = hexdigit(src[i] & 15);
        i += 1;
    }
    Ok(unsafe { std::str::from_utf8_unchecked_mut(dst) })
}
#[allow(dead_code)]
fn ref_hex_decode(src: &[u8], dst: &mut [u8]) -> Result<(), faster_hex::Error> {
    if src.len() % 2 != 0 || dst.len() != src.len() / 2 { return Err(faster_hex::Error::InvalidLength(src.len())); }
    let mut i = 0;
    while i < dst.len() {
        match (hexval(src[2 * i]), hexval(src[2 * i + 1])) {
            (Some(h), Some(l)) => dst[i] = (h << 4) | l,
            _ => return Err(faster_hex::Error::InvalidChar),
        }
        i += 1;
    }
    Ok(())
}
#[allow(dead_code)]
fn no_cpuid(_leaf: u32, _sub: u32) -> std::arch::x86_64::CpuidResult { std::arch::x86_64::CpuidResult { eax: 0, ebx: 0, ecx: 0, edx: 0 } }
#[allow(dead_code)]
fn no_cpuid1(_leaf: u32) -> std::arch::x86_64::CpuidResult { std::arch::x86_64::CpuidResult { eax: 0, ebx: 0, ecx: 0, edx: 0 } }

/// HEXC checked on the real faster_hex (scalar fallback) for every L-byte input
fn h_hexc_encode<const L: usize, const L2: usize, S: Src>(s: &mut S) {
    let src: [u8; L] = s.bytes();
    let mut a = [0u8; L2];
    let mut b = [0u8; L2];
    faster_hex::hex_encode(&src, &mut a).expect("length matches");
    ref_hex_encode(&src, &mut b).expect("length matches");
    assert!(a == b, "faster_hex::hex_encode equals HEXC");
    s.reach();
}
fn h_hexc_decode<const L: usize, const L2: usize, S: Src>(s: &mut S) {
    let src: [u8; L2] = s.bytes();
    let mut a = [0u8; L];
    let mut b = [0u8; L];
    let ra = faster_hex::hex_decode(&src, &mut a);
    let rb = ref_hex_decode(&src, &mut b);
    assert!(ra.is_ok() == rb.is_ok(), "faster_hex::hex_decode accepts exactly hex digits of either case");
    if ra.is_ok() { assert!(a == b, "faster_hex::hex_decode equals HEXC"); }
    s.reach();
}

/// ObjectId::from_hex(hex_to_buf(id)) == id   (faster_hex replaced by HEXC)
fn h_oid_hex_roundtrip<S: Src>(s: &mut S) {
    let idb: [u8; 20] = s.bytes();
    let id = ObjectId::from(idb);
    let mut buf = [0u8; 40];
    let n = id.hex_to_buf(&mut buf);
    assert!(n == 40);
    let i = s.usize();
    s.assume(i < 40);
    assert!(buf[i] == hexdigit(nib(&idb, i)), "hex digit i is the lower-case digit of nibble i");
    let back = ObjectId::from_hex(&buf).expect("40 hex digits parse");
    assert!(back == id, "from_hex inverts hex_to_buf");
    s.reach();
}

/// ObjectId::from_hex on arbitrary 40 bytes: Ok iff all are hex digits, and then nibble i is the digit's value
fn h_oid_from_hex_any<S: Src>(s: &mut S) {
    let buf: [u8; 40] = s.bytes();
    let r = ObjectId::from_hex(&buf);
    let i = s.usize();
    s.assume(i < 40);
    match r {
        Ok(id) => match hexval(buf[i]) { Some(v) => assert!(nib(id.as_bytes(), i) == v), None => assert!(false, "non-hex byte accepted") },
        Err(_) => {}
    }
    if hexval(buf[i]).is_none() { assert!(r.is_err(), "non-hex byte must be refused"); }
    s.reach();
}

/// Prefix::from_hex on L hex digits built from symbolic nibbles and a symbolic case choice per digit:
/// equals Prefix::new(id padded with zero nibbles, L)
fn h_prefix_from_hex<const L: usize, S: Src>(s: &mut S) {
    let mut digits = [0u8; L];
    let mut idb = [0u8; 20];
    let mut i = 0;
    while i < L {
        let v = s.u8();
        s.assume(v < 16);
        let upper = s.bool();
        let d = hexdigit(v);
        digits[i] = if upper && v >= 10 { d - 32 } else { d };
        if i < 40 { if i % 2 == 0 { idb[i / 2] |= v << 4 } else { idb[i / 2] |= v } }
        i += 1;
    }
    let st = unsafe { std::str::from_utf8_unchecked(&digits) };
    let r = Prefix::from_hex(st);
    if L < 4 || L > 40 {
        assert!(r.is_err());
    } else {
        let p = r.expect("hex digits parse");
        assert!(p.hex_len() == L, "hex_len is the number of digits");
        assert!(p.as_oid().as_bytes() == &idb[..], "digits are the leading nibbles, the rest is zero");
        let q = Prefix::new(&ObjectId::from(idb), L).expect("valid");
        assert!(p == q);
    }
    s.reach();
}

/// Prefix::from_hex refuses any non-hex character (one symbolic byte at a symbolic position)
fn h_prefix_from_hex_invalid<const L: usize, S: Src>(s: &mut S) {
    let mut digits = [b'a'; L];
    let pos = s.usize();
    s.assume(pos < L);
    let c = s.u8();
    s.assume(c < 0x80);
    digits[pos] = c;
    let st = unsafe { std::str::from_utf8_unchecked(&digits) };
    let r = Prefix::from_hex(st);
    assert!(r.is_ok() == hexval(c).is_some(), "from_hex accepts exactly hex digits");
    s.reach();
}

/// to_hex_with_len(n) (what Display for Prefix prints) are exactly the first n digits
fn h_hex_display_len<S: Src>(s: &mut S) {
    let idb: [u8; 20] = s.bytes();
    let id = ObjectId::from(idb);
    let n = s.usize();
    s.assume(n >= 4 && n <= 40);
    let p = Prefix::new(&id, n).expect("valid");
    // HexDisplay::fmt: hex_to_buf, then &hex[..hex_len.min(max)]
    let mut buf = [0u8; 40];
    let m = p.as_oid().hex_to_buf(&mut buf);
    let shown = &buf[..n.min(m)];
    assert!(shown.len() == n);
    let i = s.usize();
    s.assume(i < n);
    assert!(shown[i] == hexdigit(nib(&idb, i)));
    s.reach();
}

harnesses! {
    #[kani::proof] #[kani::unwind(42)] prefix_new_cmp => h_prefix_new_cmp::<_>;
    #[kani::proof] #[kani::unwind(22)] prefix_from_oid => h_prefix_from_oid::<_>;
    #[kani::proof] #[kani::unwind(6)]
    #[kani::stub(std::arch::x86_64::__cpuid_count, no_cpuid)] #[kani::stub(std::arch::x86_64::__cpuid, no_cpuid1)]
    hexc_encode_1 => h_hexc_encode::<1, 2, _>;
    #[kani::proof] #[kani::unwind(6)]
    #[kani::stub(std::arch::x86_64::__cpuid_count, no_cpuid)] #[kani::stub(std::arch::x86_64::__cpuid, no_cpuid1)]
    hexc_encode_2 => h_hexc_encode::<2, 4, _>;
    #[kani::proof] #[kani::unwind(6)]
    #[kani::stub(std::arch::x86_64::__cpuid_count, no_cpuid)] #[kani::stub(std::arch::x86_64::__cpuid, no_cpuid1)]
    hexc_decode_1 => h_hexc_decode::<1, 2, _>;
    #[kani::proof] #[kani::unwind(6)]
    #[kani::stub(std::arch::x86_64::__cpuid_count, no_cpuid)] #[kani::stub(std::arch::x86_64::__cpuid, no_cpuid1)]
    hexc_decode_2 => h_hexc_decode::<2, 4, _>;
    #[kani::proof] #[kani::unwind(42)]
    #[kani::stub(faster_hex::hex_encode, ref_hex_encode)] #[kani::stub(faster_hex::hex_decode, ref_hex_decode)]
    oid_hex_roundtrip => h_oid_hex_roundtrip::<_>;
    #[kani::proof] #[kani::unwind(42)]
    #[kani::stub(faster_hex::hex_decode, ref_hex_decode)]
    oid_from_hex_any => h_oid_from_hex_any::<_>;
    #[kani::proof] #[kani::unwind(42)]
    #[kani::stub(faster_hex::hex_encode, ref_hex_encode)]
    hex_display_len => h_hex_display_len::<_>;
    #[kani::proof] #[kani::unwind(42)] #[kani::stub(faster_hex::hex_decode, ref_hex_decode)] prefix_from_hex_3 => h_prefix_from_hex::<3, _>;
    #[kani::proof] #[kani::unwind(42)] #[kani::stub(faster_hex::hex_decode, ref_hex_decode)] prefix_from_hex_4 => h_prefix_from_hex::<4, _>;
    #[kani::proof] #[kani::unwind(42)] #[kani::stub(faster_hex::hex_decode, ref_hex_decode)] prefix_from_hex_5 => h_prefix_from_hex::<5, _>;
    #[kani::proof] #[kani::unwind(42)] #[kani::stub(faster_hex::hex_decode, ref_hex_decode)] prefix_from_hex_7 => h_prefix_from_hex::<7, _>;
    #[kani::proof] #[kani::unwind(42)] #[kani::stub(faster_hex::hex_decode, ref_hex_decode)] prefix_from_hex_8 => h_prefix_from_hex::<8, _>;
    #[kani::proof] #[kani::unwind(42)] #[kani::stub(faster_hex::hex_decode, ref_hex_decode)] prefix_from_hex_39 => h_prefix_from_hex::<39, _>;
    #[kani::proof] #[kani::unwind(42)] #[kani::stub(faster_hex::hex_decode, ref_hex_decode)] prefix_from_hex_40 => h_prefix_from_hex::<40, _>;
    #[kani::proof] #[kani::unwind(42)] #[kani::stub(faster_hex::hex_decode, ref_hex_decode)] prefix_from_hex_41 => h_prefix_from_hex::<41, _>;
    #[kani::proof] #[kani::unwind(42)] #[kani::stub(faster_hex::hex_decode, ref_hex_decode)] prefix_from_hex_invalid_7 => h_prefix_from_hex_invalid::<7, _>;
    #[kani::proof] #[kani::unwind(42)] #[kani::stub(faster_hex::hex_decode, ref_hex_decode)] prefix_from_hex_invalid_8 => h_prefix_from_hex_invalid::<8, _>;
}

#[cfg(not(kani))]
fn main() {
    let (name, mut s) = Replay::from_env();
    if !replay_dispatch(&name, &mut s) {
        println!("REPLAY-UNKNOWN-HARNESS {name}");
        std::process::exit(4);
    }
    println!("REPLAY-COMPLETED-WITHOUT-FAILURE reached={}", s.reached);
}
#[cfg(kani)]
fn main() {}
