"""Kani harnesses inside gix-pack: pack entry headers + deltas (C07), fan-out construction + prefix lookup (C09)."""

def H(name, props, kind, bound, tier="quick", timeout=900, mem_gb=12, functions=None):
    d = {"name": name, "props": props, "tier": tier, "kind": kind, "bound": bound, "timeout": timeout, "mem_gb": mem_gb}
    if functions: d["functions"] = functions
    return d

HDR = ["gix_pack::data::entry::Header::write_to", "gix_pack::data::entry::Header::size", "gix_pack::data::entry::header::leb64_encode",
       "gix_pack::data::Entry::from_bytes", "gix_pack::data::Entry::from_read", "gix_pack::data::entry::decode::parse_header_info",
       "gix_pack::data::entry::decode::streaming_parse_header_info", "gix_features::decode::leb64", "gix_features::decode::leb64_from_read"]
DELTA = ["gix_pack::data::delta::decode_header_size", "gix_pack::data::delta::apply"]
FAN = ["gix_pack::index::encode::fanout", "gix_pack::index::access::lookup_prefix"]

KANI = [{
    "mode": "in_crate", "repo_crate": "gix-pack",
    "harness_prefix": "verif_kani::kani_proofs::",
    "harnesses": [
        H("hdr_ofs_delta_bytes", ["C07"], "full", "write_to -> byte layout -> Entry::from_bytes: all u64 sizes x all u64 base distances x all pack offsets < 2^62; loops bounded by 10 LEB groups (unwinding assertions on)", functions=HDR),
        H("hdr_ofs_delta_read", ["C07"], "full", "write_to -> Entry::from_read: all u64 sizes x all u64 base distances", functions=HDR),
        H("hdr_ofs_delta_size", ["C07"], "full", "Header::size == bytes written: all u64 sizes x all u64 base distances", functions=HDR),
        H("hdr_base_kinds_bytes", ["C07"], "full", "commit/tree/blob/tag x all u64 sizes, from_bytes", functions=HDR),
        H("hdr_base_kinds_read", ["C07"], "full", "commit/tree/blob/tag x all u64 sizes, from_read", functions=HDR),
        H("hdr_base_kinds_size", ["C07"], "full", "commit/tree/blob/tag x all u64 sizes, Header::size", functions=HDR),
        H("hdr_ref_delta_bytes", ["C07"], "full", "all u64 sizes x all 20-byte base ids, from_bytes", functions=HDR),
        H("hdr_ref_delta_read", ["C07"], "full", "all u64 sizes x all 20-byte base ids, from_read", functions=HDR),
        H("hdr_bad_type", ["C07"], "full", "type ids 0 and 5 with arbitrary terminated size bytes", functions=HDR),
        H("delta_hdr_size", ["C07"], "full", "all 10-byte inputs (a 64-bit size uses at most 10 groups)", functions=DELTA),
        H("delta_apply_3_4_3", ["C07"], "bounded", "base 3 bytes, delta 4 bytes, target 3 bytes, all well-formed instruction streams", functions=DELTA),
        H("delta_apply_4_5_4", ["C07"], "bounded", "base 4, delta 5, target 4", functions=DELTA),
        H("delta_apply_4_6_5", ["C07"], "bounded", "base 4, delta 6, target 5", functions=DELTA),
        H("delta_apply_6_8_8", ["C07"], "bounded", "base 6, delta 8, target 8", timeout=2400, mem_gb=12, functions=DELTA),
        H("delta_apply_8_10_11", ["C07"], "bounded", "base 8, delta 10, target 11", tier="thorough", timeout=3600, mem_gb=16, functions=DELTA),
        H("fanout_2", ["C09"], "bounded", "sorted tables of 2 ids (first 3 bytes symbolic)", tier="off", timeout=3000, functions=FAN[:1]),
        H("fanout_4", ["C09"], "bounded", "sorted tables of 4 ids", tier="off", timeout=5400, functions=FAN[:1]),
        H("fanout_6", ["C09"], "bounded", "sorted tables of 6 ids", tier="off", functions=FAN[:1]),
        H("lookup_prefix_2_range", ["C09"], "bounded", "2 sorted ids, prefixes of 4..=7 hex digits, with candidate range", timeout=2400, functions=FAN[1:]),
        H("lookup_prefix_2_norange", ["C09"], "bounded", "2 sorted ids, without candidate range", functions=FAN[1:]),
        H("lookup_prefix_3_range", ["C09"], "bounded", "3 sorted ids, prefixes of 4..=7 hex digits, with candidate range", tier="thorough", timeout=2400, functions=FAN[1:]),
        H("lookup_prefix_3_norange", ["C09"], "bounded", "3 sorted ids, prefixes of 4..=7 hex digits, without candidate range", timeout=2400, functions=FAN[1:]),
        H("lookup_prefix_4_range", ["C09"], "bounded", "4 sorted ids, with candidate range", tier="thorough", timeout=5400, mem_gb=16, functions=FAN[1:]),
        H("lookup_prefix_4_norange", ["C09"], "bounded", "4 sorted ids, without candidate range", tier="thorough", timeout=2400, functions=FAN[1:]),
        H("lookup_prefix_5_range", ["C09"], "bounded", "5 sorted ids, with candidate range", tier="off", timeout=2400, functions=FAN[1:]),
    ],
}]

KANI.append({
    "mode": "in_crate", "repo_crate": "gix-pack", "harness_prefix": "multi_index::write::verif_kani::kani_proofs::", "unit_suffix": "m",
    "harnesses": [
        H("midx_offsets_%d" % n, ["C09"], "bounded", "multi-pack index OOFF/LOFF chunks for %d object(s) with ANY u64 pack offsets and u32 pack ids, read back per git's documented format" % n,
          tier="quick" if n <= 2 else "thorough", functions=["gix_pack::multi_index::chunk::offsets::write", "gix_pack::multi_index::chunk::large_offsets::num_large_offsets", "gix_pack::multi_index::chunk::large_offsets::write"]) for n in (1, 2, 3)],
})

ASSUMPTIONS = [
    ("C07", "delta::apply is specified for well-formed deltas only (ill-formed streams panic by design); 'any delta git produces' is covered as 'any delta in the documented format' within the stated sizes; the size==0 => 0x10000 copy needs a 64 KiB base and is outside the bounds"),
    ("C07", "zlib inflation of the delta and of the base is outside the contract (external crate)"),
    ("C09", "for indices written by git, fan_ok (fan[b] = number of ids with first byte <= b) is the file-format assumption; for indices gitoxide writes it is checked bounded on index::encode::fanout"),
    ("C09", "recorded offsets: the multi-pack index WRITER's offset chunks are checked against a reader written from git's format documentation (bounded in the number of objects, all u64 offsets). The readers themselves (pack_offset_at_index, pack_id_and_pack_offset_at_index, crc32_at_index) slice an mmap'ed File and the pack index V2 writer's offset table is inlined into index::encode::write_to (SHA-1, progress): both undecided"),
]
