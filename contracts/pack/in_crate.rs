// U-leb / U-fan Kani part (C07, C09): included into gix-pack/src/lib.rs under cfg(any(kani, gix_verif)).
include!(concat!(env!("GIX_VERIF_DIR"), "/engine/src_trait.rs"));

use crate::data::entry::Header;

/// fixed-capacity writer; write_all overridden so that std's retry loop is not part of the harness
pub struct Buf { pub b: [u8; 40], pub n: usize }
impl std::io::Write for Buf {
    fn write(&mut self, d: &[u8]) -> std::io::Result<usize> { self.write_all(d)?; Ok(d.len()) }
    fn write_all(&mut self, d: &[u8]) -> std::io::Result<()> {
        let mut i = 0;
        while i < d.len() { self.b[self.n] = d[i]; self.n += 1; i += 1; }
        Ok(())
    }
    fn flush(&mut self) -> std::io::Result<()> { Ok(()) }
}

/// reader over a fixed buffer; read_exact overridden so that std's retry loop is not part of the harness
pub struct Rd { pub b: [u8; 40], pub pos: usize }
impl std::io::Read for Rd {
    fn read(&mut self, d: &mut [u8]) -> std::io::Result<usize> { self.read_exact(d)?; Ok(d.len()) }
    fn read_exact(&mut self, d: &mut [u8]) -> std::io::Result<()> {
        if d.len() > 40 - self.pos { return Err(std::io::Error::from(std::io::ErrorKind::UnexpectedEof)); }
        let mut i = 0;
        while i < d.len() { d[i] = self.b[self.pos]; self.pos += 1; i += 1; }
        Ok(())
    }
}
/// stub for the error-message formatting on paths that construct an io::Error (message text is not under contract)
#[allow(dead_code)]
fn stub_format(_args: std::fmt::Arguments<'_>) -> String { String::new() }

/// SPEC of the two variable-length encodings, independent of the code under test (u128 arithmetic):
/// entry header: byte0 = cont | type<<4 | size&15, then 7 bits per byte, little endian.
fn spec_hdr_len(size: u64) -> usize {
    let mut n = 1; let mut s = (size as u128) >> 4;
    while s != 0 { n += 1; s >>= 7; }
    n
}
/// OFS_DELTA distance ("offset encoding" of git's pack format): big endian 7-bit groups where every
/// continuation adds 1:  value = ((..((b0&127)+1)<<7 | b1&127)+1)<<7 ...)
fn spec_ofs_decode(d: &[u8]) -> Option<(u128, usize)> {
    let mut i = 0;
    let mut v: u128 = (d[0] & 0x7f) as u128;
    while d[i] & 0x80 != 0 {
        i += 1;
        if i >= d.len() { return None; }
        v = ((v + 1) << 7) + (d[i] & 0x7f) as u128;
    }
    Some((v, i + 1))
}

/// WHICH: 0 = write_to + layout + from_bytes, 1 = write_to + from_read, 2 = Header::size
fn check_entry<const WHICH: u8, S: Src>(s: &mut S, header: Header, size: u64) {
    let pack_offset = s.u64();
    s.assume(pack_offset < (1u64 << 62));
    let mut out = Buf { b: [0u8; 40], n: 0 };
    let written = header.write_to(size, &mut out).expect("writer never fails");
    assert!(written == out.n, "write_to returns the number of bytes written");
    if WHICH == 2 {
        assert!(header.size(size) == written, "Header::size equals bytes written");
    }
    if WHICH == 0 {
        let expect_hdr = spec_hdr_len(size);
        match header {
            Header::RefDelta { .. } => assert!(written == expect_hdr + 20),
            Header::OfsDelta { base_distance } => {
                // the distance bytes decode (by the independent spec) to the distance, and use the whole rest
                let (v, n) = spec_ofs_decode(&out.b[expect_hdr..written]).expect("terminated");
                assert!(v == base_distance as u128 && n == written - expect_hdr, "distance is git's offset encoding");
            }
            _ => assert!(written == expect_hdr, "header length is 1 + ceil((bits(size)-4)/7)"),
        }
        // first byte: type and low nibble
        assert!((out.b[0] >> 4) & 7 == header.as_type_id() && out.b[0] & 15 == (size & 15) as u8);
        let e = crate::data::Entry::from_bytes(&out.b[..], pack_offset, 20).expect("written header decodes");
        assert!(e.header == header, "from_bytes: same header (kind, base id / distance)");
        assert!(e.decompressed_size == size, "from_bytes: same size");
        assert!(e.data_offset == pack_offset + written as u64, "from_bytes consumes exactly the written length");
    }
    if WHICH == 1 {
        let mut rd = Rd { b: out.b, pos: 0 };
        let e2 = crate::data::Entry::from_read(&mut rd, pack_offset, 20).expect("written header decodes from a stream");
        assert!(e2.header == header && e2.decompressed_size == size && e2.data_offset == pack_offset + written as u64, "from_read agrees");
        assert!(rd.pos == written, "from_read consumes exactly the written length");
    }
    s.reach();
}

fn h_hdr_ofs<const WHICH: u8, S: Src>(s: &mut S) {
    let size = s.u64();
    let dist = s.u64();
    check_entry::<WHICH, S>(s, Header::OfsDelta { base_distance: dist }, size);
}
fn h_hdr_base<const WHICH: u8, S: Src>(s: &mut S) {
    let size = s.u64();
    let k = s.u8();
    s.assume(k < 4);
    let h = match k { 0 => Header::Commit, 1 => Header::Tree, 2 => Header::Blob, _ => Header::Tag };
    check_entry::<WHICH, S>(s, h, size);
}
fn h_hdr_ref<const WHICH: u8, S: Src>(s: &mut S) {
    let size = s.u64();
    let id: [u8; 20] = s.bytes();
    check_entry::<WHICH, S>(s, Header::RefDelta { base_id: gix_hash::ObjectId::from(id) }, size);
}
/// unknown type ids (0 and 5) are refused with an error by both decoders
fn h_hdr_bad_type<S: Src>(s: &mut S) {
    let mut b: [u8; 9] = s.bytes();
    let bad5 = s.bool();
    b[0] = (b[0] & 0x8f) | if bad5 { 5 << 4 } else { 0 };
    b[8] &= 0x7f; // a terminated size of at most 9 bytes (60 bits)
    assert!(crate::data::Entry::from_bytes(&b[..], 0, 20).is_err());
    s.reach();
}

// ---------------------------------------------------------------- delta
/// decode_header_size against git's get_delta_hdr_size(): little endian 7-bit groups
fn h_delta_hdr_size<S: Src>(s: &mut S) {
    let d: [u8; 10] = s.bytes();
    let (size, consumed) = crate::data::delta::decode_header_size(&d[..]);
    // spec
    let mut v: u128 = 0; let mut i = 0usize; let mut n = 0usize;
    while n < 10 { v |= ((d[n] & 0x7f) as u128) << i; i += 7; n += 1; if d[n - 1] & 0x80 == 0 { break; } }
    assert!(consumed == n, "consumes up to and including the first byte without the continuation bit");
    assert!(size == v as u64, "size is the little-endian 7-bit group value (truncated to 64 bit)");
    s.reach();
}

/// SPEC interpreter of the documented delta format (copy / insert instructions).
/// Returns None if the instruction stream is ill-formed or does not produce exactly T bytes.
fn spec_apply<const T: usize>(base: &[u8], data: &[u8]) -> Option<[u8; T]> {
    let mut out = [0u8; T];
    let mut o = 0usize;
    let mut i = 0usize;
    while i < data.len() {
        let cmd = data[i];
        i += 1;
        if cmd & 0x80 != 0 {
            let mut ofs: usize = 0; let mut size: usize = 0;
            let mut bit = 0;
            while bit < 4 { if cmd & (1 << bit) != 0 { if i >= data.len() { return None; } ofs |= (data[i] as usize) << (8 * bit); i += 1; } bit += 1; }
            bit = 0;
            while bit < 3 { if cmd & (0x10 << bit) != 0 { if i >= data.len() { return None; } size |= (data[i] as usize) << (8 * bit); i += 1; } bit += 1; }
            if size == 0 { size = 0x10000; }
            if ofs > base.len() || size > base.len() - ofs || size > T - o { return None; }
            let mut k = 0;
            while k < size { out[o] = base[ofs + k]; o += 1; k += 1; }
        } else if cmd == 0 {
            return None;
        } else {
            let size = cmd as usize;
            if size > data.len() - i || size > T - o { return None; }
            let mut k = 0;
            while k < size { out[o] = data[i + k]; o += 1; k += 1; }
            i += size;
        }
    }
    if o == T { Some(out) } else { None }
}

/// for every well-formed delta (per the spec interpreter) apply() produces the spec's target
fn h_delta_apply<const B: usize, const D: usize, const T: usize, S: Src>(s: &mut S) {
    let base: [u8; B] = s.bytes();
    let data: [u8; D] = s.bytes();
    let expect = spec_apply::<T>(&base[..], &data[..]);
    s.assume(expect.is_some());
    let mut target = [0u8; T];
    crate::data::delta::apply(&base[..], &mut target[..], &data[..]);
    assert!(Some(target) == expect, "apply() yields the target described by the delta");
    s.reach();
}

// ---------------------------------------------------------------- fan-out table and prefix lookup (C09)
fn sorted_ids<const N: usize, S: Src>(s: &mut S) -> [gix_hash::ObjectId; N] {
    let mut ids = [gix_hash::ObjectId::null(gix_hash::Kind::Sha1); N];
    let mut i = 0;
    while i < N {
        // only the first 3 bytes vary: the order of ids is decided there, the rest is zero
        let b: [u8; 3] = s.bytes();
        let mut raw = [0u8; 20];
        raw[0] = b[0]; raw[1] = b[1]; raw[2] = b[2];
        ids[i] = gix_hash::ObjectId::from(raw);
        // strictly ascending; decided by the three varying bytes (avoids a 20-byte memcmp per assumption)
        if i > 0 { let p = ids[i - 1].as_bytes(); s.assume((p[0], p[1], p[2]) < (b[0], b[1], b[2])); }
        i += 1;
    }
    ids
}
fn spec_fan<const N: usize>(ids: &[gix_hash::ObjectId; N], b: u8) -> u32 {
    let mut c = 0; let mut i = 0;
    while i < N { if ids[i].as_bytes()[0] <= b { c += 1; } i += 1; }
    c
}
/// index::encode::fanout(first bytes of a sorted table)[b] == number of ids with first byte <= b
fn h_fanout<const N: usize, S: Src>(s: &mut S) {
    let ids = sorted_ids::<N, S>(s);
    let fan = crate::index::encode::fanout(&mut ids.iter().map(|id| id.first_byte()));
    let b = s.u8();
    assert!(fan[b as usize] == spec_fan(&ids, b), "fan[b] counts the ids whose first byte is <= b");
    s.reach();
}
/// lookup_prefix agrees with a linear scan: None / unique index / ambiguous, and the candidate range
fn h_lookup_prefix<const N: usize, const WITH_RANGE: bool, S: Src>(s: &mut S) {
    let ids = sorted_ids::<N, S>(s);
    let pb: [u8; 3] = s.bytes();
    // lookup_prefix reads fan[first byte] and fan[first byte - 1] only: those two entries are the documented counts,
    // every other entry is arbitrary (so reading any other entry cannot go unnoticed)
    let fill = s.u32();
    let mut fan = [fill; 256];
    fan[pb[0] as usize] = spec_fan(&ids, pb[0]);
    if pb[0] > 0 { fan[pb[0] as usize - 1] = spec_fan(&ids, pb[0] - 1); }
    let mut raw = [0u8; 20];
    raw[0] = pb[0]; raw[1] = pb[1]; raw[2] = pb[2];
    let hex_len = s.usize();
    s.assume(hex_len >= 4 && hex_len <= 7);
    let prefix = gix_hash::Prefix::new(&gix_hash::ObjectId::from(raw), hex_len).expect("valid");
    // linear scan
    let mut first = N; let mut last = N; let mut count = 0;
    let mut i = 0;
    while i < N {
        if prefix.cmp_oid(&ids[i]) == std::cmp::Ordering::Equal { if count == 0 { first = i; } last = i; count += 1; }
        i += 1;
    }
    let at = |idx: u32| -> &gix_hash::oid { &ids[idx as usize] };
    let mut range = 7..9u32;
    let res = crate::index::access::lookup_prefix(prefix, if WITH_RANGE { Some(&mut range) } else { None }, &fan, &at, N as u32);
    match res {
        None => assert!(count == 0, "None only if no id has the prefix"),
        Some(Ok(idx)) => assert!(count == 1 && idx as usize == first, "unique match is the matching index"),
        Some(Err(())) => assert!(count > 1, "ambiguous only if several ids have the prefix"),
    }
    if count == 0 { assert!(res.is_none()); }
    if WITH_RANGE {
        if count == 0 { assert!(range == (0..0)); } else { assert!(range.start as usize == first && range.end as usize == last + 1, "candidate range is the scan's range"); }
    }
    s.reach();
}

harnesses! {
    #[kani::proof] #[kani::unwind(22)] hdr_ofs_delta_bytes => h_hdr_ofs::<0, _>;
    #[kani::proof] #[kani::unwind(22)] #[kani::stub(std::fmt::format, stub_format)] hdr_ofs_delta_read => h_hdr_ofs::<1, _>;
    #[kani::proof] #[kani::unwind(22)] hdr_ofs_delta_size => h_hdr_ofs::<2, _>;
    #[kani::proof] #[kani::unwind(22)] hdr_base_kinds_bytes => h_hdr_base::<0, _>;
    #[kani::proof] #[kani::unwind(22)] #[kani::stub(std::fmt::format, stub_format)] hdr_base_kinds_read => h_hdr_base::<1, _>;
    #[kani::proof] #[kani::unwind(22)] hdr_base_kinds_size => h_hdr_base::<2, _>;
    #[kani::proof] #[kani::unwind(22)] hdr_ref_delta_bytes => h_hdr_ref::<0, _>;
    #[kani::proof] #[kani::unwind(22)] #[kani::stub(std::fmt::format, stub_format)] hdr_ref_delta_read => h_hdr_ref::<1, _>;
    #[kani::proof] #[kani::unwind(14)] hdr_bad_type => h_hdr_bad_type::<_>;
    #[kani::proof] #[kani::unwind(12)] delta_hdr_size => h_delta_hdr_size::<_>;
    #[kani::proof] #[kani::unwind(8)] delta_apply_3_4_3 => h_delta_apply::<3, 4, 3, _>;
    #[kani::proof] #[kani::unwind(8)] delta_apply_4_5_4 => h_delta_apply::<4, 5, 4, _>;
    #[kani::proof] #[kani::unwind(8)] delta_apply_4_6_5 => h_delta_apply::<4, 6, 5, _>;
    #[kani::proof] #[kani::unwind(10)] delta_apply_6_8_8 => h_delta_apply::<6, 8, 8, _>;
    #[kani::proof] #[kani::unwind(13)] delta_apply_8_10_11 => h_delta_apply::<8, 10, 11, _>;
    #[kani::proof] #[kani::unwind(258)] fanout_2 => h_fanout::<2, _>;
    #[kani::proof] #[kani::unwind(258)] fanout_4 => h_fanout::<4, _>;
    #[kani::proof] #[kani::unwind(258)] fanout_6 => h_fanout::<6, _>;
    #[kani::proof] #[kani::unwind(9)] lookup_prefix_2_range => h_lookup_prefix::<2, true, _>;
    #[kani::proof] #[kani::unwind(9)] lookup_prefix_2_norange => h_lookup_prefix::<2, false, _>;
    #[kani::proof] #[kani::unwind(9)] lookup_prefix_3_range => h_lookup_prefix::<3, true, _>;
    #[kani::proof] #[kani::unwind(9)] lookup_prefix_3_norange => h_lookup_prefix::<3, false, _>;
    #[kani::proof] #[kani::unwind(9)] lookup_prefix_4_range => h_lookup_prefix::<4, true, _>;
    #[kani::proof] #[kani::unwind(9)] lookup_prefix_4_norange => h_lookup_prefix::<4, false, _>;
    #[kani::proof] #[kani::unwind(9)] lookup_prefix_5_range => h_lookup_prefix::<5, true, _>;
}
replay_test!();
