// C09, recorded offsets of the multi-pack index: included into gix-pack/src/multi_index/write.rs under cfg(any(kani, gix_verif)).
// The OOFF / LOFF chunks written by multi_index::chunk::{offsets, large_offsets} are read back with a decoder written from
// git's format documentation (gitformat-pack, "multi-pack-index"): every object has (pack-int-id: u32 BE, offset: u32 BE);
// if a LOFF chunk exists and the most significant bit of the 32-bit offset is set, the remaining 31 bits index the
// table of 64-bit offsets, otherwise the 32 bits are the offset.
include!(concat!(env!("GIX_VERIF_DIR"), "/engine/src_trait.rs"));

struct Buf { b: [u8; 64], n: usize }
impl std::io::Write for Buf {
    fn write(&mut self, d: &[u8]) -> std::io::Result<usize> { self.write_all(d)?; Ok(d.len()) }
    fn write_all(&mut self, d: &[u8]) -> std::io::Result<()> { let mut i = 0; while i < d.len() { self.b[self.n] = d[i]; self.n += 1; i += 1; } Ok(()) }
    fn flush(&mut self) -> std::io::Result<()> { Ok(()) }
}
fn be32(d: &[u8], at: usize) -> u32 { u32::from_be_bytes([d[at], d[at + 1], d[at + 2], d[at + 3]]) }
fn be64(d: &[u8], at: usize) -> u64 { u64::from_be_bytes([d[at], d[at + 1], d[at + 2], d[at + 3], d[at + 4], d[at + 5], d[at + 6], d[at + 7]]) }

/// for N entries with ANY 64-bit pack offsets and pack ids: what the format's reader gets back is what was recorded
fn h_midx_offsets<const N: usize, S: Src>(s: &mut S) {
    let mut entries: Vec<Entry> = Vec::with_capacity(N);
    let mut offs = [0u64; N];
    let mut packs = [0u32; N];
    let mut i = 0;
    while i < N {
        offs[i] = s.u64();
        packs[i] = s.u32();
        entries.push(Entry { id: gix_hash::ObjectId::null(gix_hash::Kind::Sha1), pack_index: packs[i], pack_offset: offs[i], index_mtime: std::time::SystemTime::UNIX_EPOCH });
        i += 1;
    }
    let large = multi_index::chunk::large_offsets::num_large_offsets(&entries);
    let mut ooff = Buf { b: [0u8; 64], n: 0 };
    multi_index::chunk::offsets::write(&entries, large.is_some(), &mut ooff).expect("writer never fails");
    assert!(ooff.n == 8 * N && multi_index::chunk::offsets::storage_size(N) == 8 * N as u64, "8 bytes per object");
    let mut loff = Buf { b: [0u8; 64], n: 0 };
    if let Some(n) = large {
        multi_index::chunk::large_offsets::write(&entries, n, &mut loff).expect("writer never fails");
        assert!(loff.n == 8 * n && multi_index::chunk::large_offsets::storage_size(n) == 8 * n as u64, "8 bytes per large offset");
    }
    // the large-offset chunk must exist whenever an offset does not fit 32 bits
    i = 0;
    while i < N { if offs[i] > u32::MAX as u64 { assert!(large.is_some()); } i += 1; }
    // read back per the documented format
    i = 0;
    while i < N {
        assert!(be32(&ooff.b, 8 * i) == packs[i], "pack id is recorded");
        let o32 = be32(&ooff.b, 8 * i + 4);
        let got = if large.is_some() && o32 & 0x8000_0000 != 0 {
            let idx = (o32 & 0x7fff_ffff) as usize;
            assert!(8 * idx + 8 <= loff.n, "large-offset index is within the LOFF chunk");
            be64(&loff.b, 8 * idx)
        } else {
            o32 as u64
        };
        assert!(got == offs[i], "the recorded pack offset is read back");
        i += 1;
    }
    s.reach();
}

harnesses! {
    #[kani::proof] #[kani::unwind(10)] midx_offsets_1 => h_midx_offsets::<1, _>;
    #[kani::proof] #[kani::unwind(10)] midx_offsets_2 => h_midx_offsets::<2, _>;
    #[kani::proof] #[kani::unwind(10)] midx_offsets_3 => h_midx_offsets::<3, _>;
}
replay_test!();
