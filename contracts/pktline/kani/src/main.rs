// U-pktline Kani part (C29, C06): hex length prefix for all 2^32 prefixes, encoder -> decoder round trips.
include!("../../../../engine/src_trait.rs");
use gix_packetline::{decode, encode, BandRef, Channel, PacketLineRef};
use gix_packetline::decode::{PacketLineOrWantedSize, Stream};

#[allow(dead_code)]
fn no_cpuid(_leaf: u32, _sub: u32) -> std::arch::x86_64::CpuidResult { std::arch::x86_64::CpuidResult { eax: 0, ebx: 0, ecx: 0, edx: 0 } }
#[allow(dead_code)]
fn no_cpuid1(_leaf: u32) -> std::arch::x86_64::CpuidResult { std::arch::x86_64::CpuidResult { eax: 0, ebx: 0, ecx: 0, edx: 0 } }

/// HEXC reference (see contracts/prefix): used as a stub on the refusing-path harnesses only, where the unwind bound must
/// stay at 3 (io::Error drop glue) while the real hex_encode validates its 4 output bytes as UTF-8 in a 4-iteration loop
#[allow(dead_code)]
fn ref_hex_encode<'a>(src: &[u8], dst: &'a mut [u8]) -> Result<&'a mut str, faster_hex::Error> {
    if dst.len() != src.len() * 2 { return Err(faster_hex::Error::InvalidLength(src.len() * 2)); }
    let d = |n: u8| if n < 10 { b'0' + n } else { b'a' + (n - 10) };
    if src.len() == 2 { dst[0] = d(src[0] >> 4); dst[1] = d(src[0] & 15); dst[2] = d(src[1] >> 4); dst[3] = d(src[1] & 15); }
    Ok(unsafe { std::str::from_utf8_unchecked_mut(dst) })
}
fn hexval(c: u8) -> Option<u16> {
    match c {
        b'0'..=b'9' => Some((c - b'0') as u16),
        b'a'..=b'f' => Some((c - b'a' + 10) as u16),
        b'A'..=b'F' => Some((c - b'A' + 10) as u16),
        _ => None,
    }
}

/// hex_prefix on EVERY 4-byte prefix: control lines, the two documented errors, Wanted(n-4) otherwise,
/// HexDecode for anything that is not four hex digits; never a panic.
/// Also establishes the contract used by the Verus proof of `streaming` (1 <= Wanted <= 65531, Line is not Data).
fn h_hex_prefix_all<S: Src>(s: &mut S) {
    let p: [u8; 4] = s.bytes();
    let r = decode::hex_prefix(&p[..]);
    let v = match (hexval(p[0]), hexval(p[1]), hexval(p[2]), hexval(p[3])) {
        (Some(a), Some(b), Some(c), Some(d)) => Some((a << 12) | (b << 8) | (c << 4) | d),
        _ => None,
    };
    match v {
        None => assert!(matches!(r, Err(decode::Error::HexDecode { .. })), "non-hex prefix is a HexDecode error"),
        Some(0) => assert!(matches!(r, Ok(PacketLineOrWantedSize::Line(PacketLineRef::Flush)))),
        Some(1) => assert!(matches!(r, Ok(PacketLineOrWantedSize::Line(PacketLineRef::Delimiter)))),
        Some(2) => assert!(matches!(r, Ok(PacketLineOrWantedSize::Line(PacketLineRef::ResponseEnd)))),
        Some(3) => assert!(matches!(r, Err(decode::Error::InvalidLineLength))),
        Some(4) => assert!(matches!(r, Err(decode::Error::DataIsEmpty))),
        Some(n) => match r {
            Ok(PacketLineOrWantedSize::Wanted(w)) => { assert!(w == n - 4, "wanted payload length is the prefix minus 4"); assert!(w >= 1 && w <= 65531); }
            _ => assert!(false, "a length prefix >= 5 yields the wanted payload length"),
        },
    }
    s.reach();
}

/// counting writer for the length-only obligations
struct Count(usize);
impl std::io::Write for Count {
    fn write(&mut self, b: &[u8]) -> std::io::Result<usize> { self.0 += b.len(); Ok(b.len()) }
    fn write_all(&mut self, b: &[u8]) -> std::io::Result<()> { self.0 += b.len(); Ok(()) }
    fn flush(&mut self) -> std::io::Result<()> { Ok(()) }
}
/// fixed-capacity writer
struct Buf { b: [u8; 32], n: usize }
impl std::io::Write for Buf {
    fn write(&mut self, d: &[u8]) -> std::io::Result<usize> { self.write_all(d)?; Ok(d.len()) }
    fn write_all(&mut self, d: &[u8]) -> std::io::Result<()> {
        let mut i = 0;
        while i < d.len() { self.b[self.n] = d[i]; self.n += 1; i += 1; }
        Ok(())
    }
    fn flush(&mut self) -> std::io::Result<()> { Ok(()) }
}

/// KIND: 0 data, 1 text, 2 error, 3/4/5 band 1/2/3
fn encode_kind(kind: u8, data: &[u8], out: &mut dyn std::io::Write) -> std::io::Result<usize> {
    match kind {
        0 => encode::data_to_write(data, out),
        1 => encode::text_to_write(data, out),
        2 => encode::error_to_write(data, out),
        3 => encode::band_to_write(Channel::Data, data, out),
        4 => encode::band_to_write(Channel::Progress, data, out),
        _ => encode::band_to_write(Channel::Error, data, out),
    }
}
fn overhead(kind: u8) -> usize { match kind { 0 => 0, 1 => 1, 2 => 4, _ => 1 } }

/// an encoder followed by the streaming decoder yields the same line and consumes what was written
fn h_roundtrip<const N: usize, const KIND: u8, S: Src>(s: &mut S) {
    let payload: [u8; N] = s.bytes();
    let kind = KIND;
    let mut out = Buf { b: [0u8; 32], n: 0 };
    let written = encode_kind(kind, &payload[..], &mut out).expect("non-empty payload below the limit encodes");
    assert!(written == out.n && written == N + 4 + overhead(kind), "bytes written = 4 + prefix + payload + suffix");
    // decode from a buffer that continues with other bytes
    let trailing: [u8; 2] = s.bytes();
    out.b[out.n] = trailing[0]; out.b[out.n + 1] = trailing[1];
    match decode::streaming(&out.b[..out.n + 2]).expect("written line decodes") {
        Stream::Complete { line, bytes_consumed } => {
            assert!(bytes_consumed == written, "decoder consumes exactly the written length");
            let d = line.as_slice().expect("a data line");
            match kind {
                0 => assert!(d == &payload[..], "data line carries the payload"),
                1 => {
                    assert!(d.len() == N + 1 && &d[..N] == &payload[..] && d[N] == b'\n');
                    assert!(line.as_text().expect("data").as_slice() == &payload[..], "text line strips the newline it added");
                }
                2 => assert!(line.check_error().expect("ERR line").0 == &payload[..], "error line carries the message"),
                k => match line.decode_band().expect("band 1..3") {
                    BandRef::Data(b) => assert!(k == 3 && b == &payload[..]),
                    BandRef::Progress(b) => assert!(k == 4 && b == &payload[..]),
                    BandRef::Error(b) => assert!(k == 5 && b == &payload[..]),
                },
            }
        }
        Stream::Incomplete { .. } => assert!(false, "a complete line was written"),
    }
    s.reach();
}
/// every strict prefix of an encoded data line is reported as incomplete with the exact number of missing bytes
fn h_truncated<const N: usize, S: Src>(s: &mut S) {
    let payload: [u8; N] = s.bytes();
    let mut out = Buf { b: [0u8; 32], n: 0 };
    let written = encode::data_to_write(&payload[..], &mut out).expect("encodes");
    let cut = s.usize();
    s.assume(cut < written);
    match decode::streaming(&out.b[..cut]).expect("a truncated line is not an error") {
        Stream::Incomplete { bytes_needed } => assert!(if cut < 4 { bytes_needed == 4 - cut } else { bytes_needed == written - cut }, "missing byte count"),
        Stream::Complete { .. } => assert!(false, "truncated line must be incomplete"),
    }
    s.reach();
}
/// control lines
fn h_control<S: Src>(s: &mut S) {
    let which = s.u8();
    s.assume(which < 3);
    let mut out = Buf { b: [0u8; 32], n: 0 };
    let n = match which { 0 => encode::flush_to_write(&mut out), 1 => encode::delim_to_write(&mut out), _ => encode::response_end_to_write(&mut out) }.expect("ok");
    assert!(n == 4 && out.n == 4);
    match decode::streaming(&out.b[..4]).expect("decodes") {
        Stream::Complete { line, bytes_consumed } => {
            assert!(bytes_consumed == 4);
            assert!(line == match which { 0 => PacketLineRef::Flush, 1 => PacketLineRef::Delimiter, _ => PacketLineRef::ResponseEnd });
        }
        _ => assert!(false),
    }
    s.reach();
}
static ZERO: [u8; 65517] = [0u8; 65517];
/// encoders at the boundary payload lengths: 0 (refused), maximum (accepted, line length reported), maximum + 1 (refused).
/// The refusing paths build io::Error::new(Other, <thiserror enum>); the drop glue of `dyn Error` makes CBMC unroll a spurious
/// recursion up to the unwind bound, so these harnesses run with unwind(3) (there is no loop of more than 2 iterations on them).
fn h_encode_limits<const KIND: u8, const N: usize, S: Src>(s: &mut S) {
    let n = N;
    let kind = KIND;
    let mut c = Count(0);
    let data: &[u8] = &ZERO[..n];
    let r = encode_kind(kind, data, &mut c);
    let total = n + overhead(kind);
    if n == 0 || total > 65516 {
        assert!(r.is_err(), "empty and oversized payloads are refused");
    } else {
        assert!(r.expect("fits") == total + 4 && c.0 == total + 4, "line length = payload + framing");
    }
    s.reach();
}
/// decode_band / as_text / check_error never panic on a data line the decoder can produce (non-empty payload)
fn h_band_any<const N: usize, S: Src>(s: &mut S) {
    let payload: [u8; N] = s.bytes();
    let line = decode::to_data_line(&payload[..]).expect("small");
    match line.decode_band() {
        Ok(BandRef::Data(b)) => assert!(payload[0] == 1 && b == &payload[1..]),
        Ok(BandRef::Progress(b)) => assert!(payload[0] == 2 && b == &payload[1..]),
        Ok(BandRef::Error(b)) => assert!(payload[0] == 3 && b == &payload[1..]),
        Err(_) => assert!(payload[0] == 0 || payload[0] > 3),
    }
    let t = line.as_text().expect("data").as_slice();
    assert!(if payload[N - 1] == b'\n' { t == &payload[..N - 1] } else { t == &payload[..] });
    let _ = line.check_error();
    s.reach();
}

harnesses! {
    #[kani::proof] #[kani::unwind(8)] #[kani::stub(std::arch::x86_64::__cpuid_count, no_cpuid)] #[kani::stub(std::arch::x86_64::__cpuid, no_cpuid1)] hex_prefix_all => h_hex_prefix_all::<_>;
    #[kani::proof] #[kani::unwind(8)] #[kani::stub(std::arch::x86_64::__cpuid_count, no_cpuid)] #[kani::stub(std::arch::x86_64::__cpuid, no_cpuid1)] control_lines => h_control::<_>;
    #[kani::proof] #[kani::unwind(11)] #[kani::stub(std::arch::x86_64::__cpuid_count, no_cpuid)] #[kani::stub(std::arch::x86_64::__cpuid, no_cpuid1)] roundtrip_data_1 => h_roundtrip::<1, 0, _>;
    #[kani::proof] #[kani::unwind(11)] #[kani::stub(std::arch::x86_64::__cpuid_count, no_cpuid)] #[kani::stub(std::arch::x86_64::__cpuid, no_cpuid1)] roundtrip_text_1 => h_roundtrip::<1, 1, _>;
    #[kani::proof] #[kani::unwind(11)] #[kani::stub(std::arch::x86_64::__cpuid_count, no_cpuid)] #[kani::stub(std::arch::x86_64::__cpuid, no_cpuid1)] roundtrip_error_1 => h_roundtrip::<1, 2, _>;
    #[kani::proof] #[kani::unwind(11)] #[kani::stub(std::arch::x86_64::__cpuid_count, no_cpuid)] #[kani::stub(std::arch::x86_64::__cpuid, no_cpuid1)] roundtrip_band1_1 => h_roundtrip::<1, 3, _>;
    #[kani::proof] #[kani::unwind(11)] #[kani::stub(std::arch::x86_64::__cpuid_count, no_cpuid)] #[kani::stub(std::arch::x86_64::__cpuid, no_cpuid1)] roundtrip_band2_1 => h_roundtrip::<1, 4, _>;
    #[kani::proof] #[kani::unwind(11)] #[kani::stub(std::arch::x86_64::__cpuid_count, no_cpuid)] #[kani::stub(std::arch::x86_64::__cpuid, no_cpuid1)] roundtrip_band3_1 => h_roundtrip::<1, 5, _>;
    #[kani::proof] #[kani::unwind(11)] #[kani::stub(std::arch::x86_64::__cpuid_count, no_cpuid)] #[kani::stub(std::arch::x86_64::__cpuid, no_cpuid1)] truncated_1 => h_truncated::<1, _>;
    #[kani::proof] #[kani::unwind(12)] #[kani::stub(std::arch::x86_64::__cpuid_count, no_cpuid)] #[kani::stub(std::arch::x86_64::__cpuid, no_cpuid1)] roundtrip_data_2 => h_roundtrip::<2, 0, _>;
    #[kani::proof] #[kani::unwind(12)] #[kani::stub(std::arch::x86_64::__cpuid_count, no_cpuid)] #[kani::stub(std::arch::x86_64::__cpuid, no_cpuid1)] roundtrip_text_2 => h_roundtrip::<2, 1, _>;
    #[kani::proof] #[kani::unwind(12)] #[kani::stub(std::arch::x86_64::__cpuid_count, no_cpuid)] #[kani::stub(std::arch::x86_64::__cpuid, no_cpuid1)] roundtrip_error_2 => h_roundtrip::<2, 2, _>;
    #[kani::proof] #[kani::unwind(12)] #[kani::stub(std::arch::x86_64::__cpuid_count, no_cpuid)] #[kani::stub(std::arch::x86_64::__cpuid, no_cpuid1)] roundtrip_band1_2 => h_roundtrip::<2, 3, _>;
    #[kani::proof] #[kani::unwind(12)] #[kani::stub(std::arch::x86_64::__cpuid_count, no_cpuid)] #[kani::stub(std::arch::x86_64::__cpuid, no_cpuid1)] roundtrip_band2_2 => h_roundtrip::<2, 4, _>;
    #[kani::proof] #[kani::unwind(12)] #[kani::stub(std::arch::x86_64::__cpuid_count, no_cpuid)] #[kani::stub(std::arch::x86_64::__cpuid, no_cpuid1)] roundtrip_band3_2 => h_roundtrip::<2, 5, _>;
    #[kani::proof] #[kani::unwind(12)] #[kani::stub(std::arch::x86_64::__cpuid_count, no_cpuid)] #[kani::stub(std::arch::x86_64::__cpuid, no_cpuid1)] truncated_2 => h_truncated::<2, _>;
    #[kani::proof] #[kani::unwind(14)] #[kani::stub(std::arch::x86_64::__cpuid_count, no_cpuid)] #[kani::stub(std::arch::x86_64::__cpuid, no_cpuid1)] roundtrip_data_4 => h_roundtrip::<4, 0, _>;
    #[kani::proof] #[kani::unwind(14)] #[kani::stub(std::arch::x86_64::__cpuid_count, no_cpuid)] #[kani::stub(std::arch::x86_64::__cpuid, no_cpuid1)] roundtrip_text_4 => h_roundtrip::<4, 1, _>;
    #[kani::proof] #[kani::unwind(14)] #[kani::stub(std::arch::x86_64::__cpuid_count, no_cpuid)] #[kani::stub(std::arch::x86_64::__cpuid, no_cpuid1)] roundtrip_error_4 => h_roundtrip::<4, 2, _>;
    #[kani::proof] #[kani::unwind(14)] #[kani::stub(std::arch::x86_64::__cpuid_count, no_cpuid)] #[kani::stub(std::arch::x86_64::__cpuid, no_cpuid1)] roundtrip_band1_4 => h_roundtrip::<4, 3, _>;
    #[kani::proof] #[kani::unwind(14)] #[kani::stub(std::arch::x86_64::__cpuid_count, no_cpuid)] #[kani::stub(std::arch::x86_64::__cpuid, no_cpuid1)] roundtrip_band2_4 => h_roundtrip::<4, 4, _>;
    #[kani::proof] #[kani::unwind(14)] #[kani::stub(std::arch::x86_64::__cpuid_count, no_cpuid)] #[kani::stub(std::arch::x86_64::__cpuid, no_cpuid1)] roundtrip_band3_4 => h_roundtrip::<4, 5, _>;
    #[kani::proof] #[kani::unwind(14)] #[kani::stub(std::arch::x86_64::__cpuid_count, no_cpuid)] #[kani::stub(std::arch::x86_64::__cpuid, no_cpuid1)] truncated_4 => h_truncated::<4, _>;
    #[kani::proof] #[kani::unwind(16)] #[kani::stub(std::arch::x86_64::__cpuid_count, no_cpuid)] #[kani::stub(std::arch::x86_64::__cpuid, no_cpuid1)] roundtrip_data_6 => h_roundtrip::<6, 0, _>;
    #[kani::proof] #[kani::unwind(16)] #[kani::stub(std::arch::x86_64::__cpuid_count, no_cpuid)] #[kani::stub(std::arch::x86_64::__cpuid, no_cpuid1)] roundtrip_text_6 => h_roundtrip::<6, 1, _>;
    #[kani::proof] #[kani::unwind(16)] #[kani::stub(std::arch::x86_64::__cpuid_count, no_cpuid)] #[kani::stub(std::arch::x86_64::__cpuid, no_cpuid1)] roundtrip_error_6 => h_roundtrip::<6, 2, _>;
    #[kani::proof] #[kani::unwind(16)] #[kani::stub(std::arch::x86_64::__cpuid_count, no_cpuid)] #[kani::stub(std::arch::x86_64::__cpuid, no_cpuid1)] roundtrip_band1_6 => h_roundtrip::<6, 3, _>;
    #[kani::proof] #[kani::unwind(16)] #[kani::stub(std::arch::x86_64::__cpuid_count, no_cpuid)] #[kani::stub(std::arch::x86_64::__cpuid, no_cpuid1)] roundtrip_band2_6 => h_roundtrip::<6, 4, _>;
    #[kani::proof] #[kani::unwind(16)] #[kani::stub(std::arch::x86_64::__cpuid_count, no_cpuid)] #[kani::stub(std::arch::x86_64::__cpuid, no_cpuid1)] roundtrip_band3_6 => h_roundtrip::<6, 5, _>;
    #[kani::proof] #[kani::unwind(16)] #[kani::stub(std::arch::x86_64::__cpuid_count, no_cpuid)] #[kani::stub(std::arch::x86_64::__cpuid, no_cpuid1)] truncated_6 => h_truncated::<6, _>;
    #[kani::proof] #[kani::unwind(20)] #[kani::stub(std::arch::x86_64::__cpuid_count, no_cpuid)] #[kani::stub(std::arch::x86_64::__cpuid, no_cpuid1)] roundtrip_data_10 => h_roundtrip::<10, 0, _>;
    #[kani::proof] #[kani::unwind(20)] #[kani::stub(std::arch::x86_64::__cpuid_count, no_cpuid)] #[kani::stub(std::arch::x86_64::__cpuid, no_cpuid1)] roundtrip_text_10 => h_roundtrip::<10, 1, _>;
    #[kani::proof] #[kani::unwind(20)] #[kani::stub(std::arch::x86_64::__cpuid_count, no_cpuid)] #[kani::stub(std::arch::x86_64::__cpuid, no_cpuid1)] roundtrip_error_10 => h_roundtrip::<10, 2, _>;
    #[kani::proof] #[kani::unwind(20)] #[kani::stub(std::arch::x86_64::__cpuid_count, no_cpuid)] #[kani::stub(std::arch::x86_64::__cpuid, no_cpuid1)] roundtrip_band1_10 => h_roundtrip::<10, 3, _>;
    #[kani::proof] #[kani::unwind(20)] #[kani::stub(std::arch::x86_64::__cpuid_count, no_cpuid)] #[kani::stub(std::arch::x86_64::__cpuid, no_cpuid1)] roundtrip_band2_10 => h_roundtrip::<10, 4, _>;
    #[kani::proof] #[kani::unwind(20)] #[kani::stub(std::arch::x86_64::__cpuid_count, no_cpuid)] #[kani::stub(std::arch::x86_64::__cpuid, no_cpuid1)] roundtrip_band3_10 => h_roundtrip::<10, 5, _>;
    #[kani::proof] #[kani::unwind(20)] #[kani::stub(std::arch::x86_64::__cpuid_count, no_cpuid)] #[kani::stub(std::arch::x86_64::__cpuid, no_cpuid1)] truncated_10 => h_truncated::<10, _>;
    #[kani::proof] #[kani::unwind(8)] #[kani::stub(std::arch::x86_64::__cpuid_count, no_cpuid)] #[kani::stub(std::arch::x86_64::__cpuid, no_cpuid1)] encode_max_data => h_encode_limits::<0, 65516, _>;
    #[kani::proof] #[kani::unwind(8)] #[kani::stub(std::arch::x86_64::__cpuid_count, no_cpuid)] #[kani::stub(std::arch::x86_64::__cpuid, no_cpuid1)] encode_max_text => h_encode_limits::<1, 65515, _>;
    #[kani::proof] #[kani::unwind(8)] #[kani::stub(std::arch::x86_64::__cpuid_count, no_cpuid)] #[kani::stub(std::arch::x86_64::__cpuid, no_cpuid1)] encode_max_error => h_encode_limits::<2, 65512, _>;
    #[kani::proof] #[kani::unwind(8)] #[kani::stub(std::arch::x86_64::__cpuid_count, no_cpuid)] #[kani::stub(std::arch::x86_64::__cpuid, no_cpuid1)] encode_max_band1 => h_encode_limits::<3, 65515, _>;
    #[kani::proof] #[kani::unwind(8)] #[kani::stub(std::arch::x86_64::__cpuid_count, no_cpuid)] #[kani::stub(std::arch::x86_64::__cpuid, no_cpuid1)] encode_max_band2 => h_encode_limits::<4, 65515, _>;
    #[kani::proof] #[kani::unwind(8)] #[kani::stub(std::arch::x86_64::__cpuid_count, no_cpuid)] #[kani::stub(std::arch::x86_64::__cpuid, no_cpuid1)] encode_max_band3 => h_encode_limits::<5, 65515, _>;
    #[kani::proof] #[kani::unwind(3)] #[kani::stub(faster_hex::hex_encode, ref_hex_encode)] encode_empty_data => h_encode_limits::<0, 0, _>;
    #[kani::proof] #[kani::unwind(3)] #[kani::stub(faster_hex::hex_encode, ref_hex_encode)] encode_over_data => h_encode_limits::<0, 65517, _>;
    #[kani::proof] #[kani::unwind(3)] #[kani::stub(faster_hex::hex_encode, ref_hex_encode)] encode_empty_text => h_encode_limits::<1, 0, _>;
    #[kani::proof] #[kani::unwind(3)] #[kani::stub(faster_hex::hex_encode, ref_hex_encode)] encode_over_text => h_encode_limits::<1, 65516, _>;
    #[kani::proof] #[kani::unwind(3)] #[kani::stub(faster_hex::hex_encode, ref_hex_encode)] encode_empty_error => h_encode_limits::<2, 0, _>;
    #[kani::proof] #[kani::unwind(3)] #[kani::stub(faster_hex::hex_encode, ref_hex_encode)] encode_over_error => h_encode_limits::<2, 65513, _>;
    #[kani::proof] #[kani::unwind(3)] #[kani::stub(faster_hex::hex_encode, ref_hex_encode)] encode_empty_band1 => h_encode_limits::<3, 0, _>;
    #[kani::proof] #[kani::unwind(3)] #[kani::stub(faster_hex::hex_encode, ref_hex_encode)] encode_over_band1 => h_encode_limits::<3, 65516, _>;
    #[kani::proof] #[kani::unwind(3)] #[kani::stub(faster_hex::hex_encode, ref_hex_encode)] encode_empty_band2 => h_encode_limits::<4, 0, _>;
    #[kani::proof] #[kani::unwind(3)] #[kani::stub(faster_hex::hex_encode, ref_hex_encode)] encode_over_band2 => h_encode_limits::<4, 65516, _>;
    #[kani::proof] #[kani::unwind(3)] #[kani::stub(faster_hex::hex_encode, ref_hex_encode)] encode_empty_band3 => h_encode_limits::<5, 0, _>;
    #[kani::proof] #[kani::unwind(3)] #[kani::stub(faster_hex::hex_encode, ref_hex_encode)] encode_over_band3 => h_encode_limits::<5, 65516, _>;
    #[kani::proof] #[kani::unwind(8)] band_any_1 => h_band_any::<1, _>;
    #[kani::proof] #[kani::unwind(8)] band_any_3 => h_band_any::<3, _>;
}

#[cfg(not(kani))]
fn main() {
    let (name, mut s) = Replay::from_env();
    if !replay_dispatch(&name, &mut s) {
        println!("REPLAY-UNKNOWN-HARNESS {name}");
        std::process::exit(4);
    }
    println!("REPLAY-COMPLETED-WITHOUT-FAILURE reached={}", s.reached);
}
#[cfg(kani)]
fn main() {}
