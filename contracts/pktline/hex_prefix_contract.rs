// R8: contract of gix_packetline::decode::hex_prefix -- proved for all 2^32 four-byte prefixes by the
// Kani harness pktline.hex_prefix_all (contracts/pktline/kani); the body is not verified here.
#[verifier::external_body]
pub fn hex_prefix(four_bytes: &[u8]) -> (r: Result<PacketLineOrWantedSize<'_>, Error>)
    requires four_bytes.len() == 4
    ensures match r {
        Ok(PacketLineOrWantedSize::Wanted(n)) => 1 <= n <= 65531,
        Ok(PacketLineOrWantedSize::Line(l)) => !(l is Data),
        Err(_) => true,
    }
{ unimplemented!() }
