// TRUSTED PRELUDE: stand-in for bstr::BString (only carried inside an error variant)
pub struct BString { pub v: Vec<u8> }
