"""U-pktline (C29, C06): packet-line framing."""
DEC = "gix-packetline/src/decode.rs"
VERUS = [{
    "id": "pktline.streaming", "props": ["C29", "C06"], "tier": "quick",
    "functions": ["gix_packetline::decode::streaming", "gix_packetline::decode::to_data_line", "gix_packetline::decode::all_at_once"],
    "parts": [
        {"include": "contracts/pktline/prelude.rs"},
        {"file": "gix-packetline/src/lib.rs", "item": r"const U16_HEX_BYTES: usize", "until": ";"},
        {"file": "gix-packetline/src/lib.rs", "item": r"const MAX_DATA_LEN: usize", "until": ";"},
        {"file": "gix-packetline/src/lib.rs", "item": r"const MAX_LINE_LEN: usize", "until": ";"},
        {"file": "gix-packetline/src/lib.rs", "item": r"pub enum PacketLineRef<'a>"},
        {"file": DEC, "item": r"pub enum Error\b", "nth": 1, "count": 2},
        {"file": DEC, "item": r"pub enum Stream<'a>"},
        {"file": DEC, "item": r"pub enum PacketLineOrWantedSize<'a>"},
        {"include": "contracts/pktline/hex_prefix_contract.rs"},
        {
            "file": DEC, "fn": "to_data_line",
            "orig_sig": "pub fn to_data_line(data: &[u8]) -> Result<PacketLineRef<'_>, Error>",
            "new_sig": "pub fn to_data_line(data: &[u8]) -> (r: Result<PacketLineRef<'_>, Error>)",
            "ensures": """        data.len() <= 65520 ==> r is Ok,
        match r { Ok(PacketLineRef::Data(d)) => d@ == data@, Ok(_) => false, Err(_) => data.len() > 65520 }""",
            "expect_loops": 0,
        },
        {
            "file": DEC, "fn": "streaming",
            "orig_sig": "pub fn streaming(data: &[u8]) -> Result<Stream<'_>, Error>",
            "new_sig": "pub fn streaming(data: &[u8]) -> (r: Result<Stream<'_>, Error>)",
            "ensures": """        match r {
            Ok(Stream::Complete { line, bytes_consumed }) => 4 <= bytes_consumed <= data.len() && bytes_consumed <= 65520
                && (match line { PacketLineRef::Data(d) => bytes_consumed > 4 && d@ == data@.subrange(4, bytes_consumed as int), _ => bytes_consumed == 4 }),
            Ok(Stream::Incomplete { bytes_needed }) => bytes_needed > 0 && data.len() + bytes_needed <= 65520,
            Err(_) => true,
        }""",
            "expect_loops": 0,
        },
        {
            "file": DEC, "fn": "all_at_once",
            "orig_sig": "pub fn all_at_once(data: &[u8]) -> Result<PacketLineRef<'_>, Error>",
            "new_sig": "pub fn all_at_once(data: &[u8]) -> (r: Result<PacketLineRef<'_>, Error>)",
            "ensures": """        match r {
            Ok(PacketLineRef::Data(d)) => 0 < d.len() && d.len() + 4 <= data.len() && d@ == data@.subrange(4, d.len() + 4),
            _ => true,
        }""",
            "expect_loops": 0,
        },
    ],
}]
ENC = ["gix_packetline::encode::data_to_write", "gix_packetline::encode::text_to_write", "gix_packetline::encode::error_to_write",
       "gix_packetline::encode::band_to_write", "gix_packetline::encode::flush_to_write", "gix_packetline::encode::delim_to_write",
       "gix_packetline::encode::response_end_to_write", "gix_packetline::encode::prefixed_and_suffixed_data_to_write", "gix_packetline::encode::u16_to_hex",
       "gix_packetline::decode::streaming", "gix_packetline::PacketLineRef::decode_band", "gix_packetline::PacketLineRef::as_text", "gix_packetline::PacketLineRef::check_error"]

def H(name, props, kind, bound, tier="quick", timeout=900, mem_gb=12, functions=None):
    return {"name": name, "props": props, "tier": tier, "kind": kind, "bound": bound, "timeout": timeout, "mem_gb": mem_gb, "functions": functions or ENC}

NAMES = ["data", "text", "error", "band1", "band2", "band3"]
def rt(n, tier):
    return [H("roundtrip_%s_%d" % (nm, n), ["C29"], "bounded", "%s encoder -> streaming decoder, every payload of %d byte(s), any 2 trailing bytes" % (nm, n), tier=tier) for nm in NAMES] \
        + [H("truncated_%d" % n, ["C29"], "bounded", "every strict prefix of an encoded %d-byte data line is Incomplete with the exact missing count" % n, tier=tier)]

KANI = [{
    "mode": "external",
    "harnesses": [
        H("hex_prefix_all", ["C29", "C06"], "full", "all 2^32 four-byte prefixes (loop-free apart from the 2-byte hex decode)", functions=["gix_packetline::decode::hex_prefix"]),
        H("control_lines", ["C29"], "full", "flush / delim / response-end"),
    ] + [H("encode_max_%s" % nm, ["C29"], "bounded", "%s encoder at exactly the maximum payload length (65516 minus framing)" % nm) for nm in NAMES]
      + [H("encode_empty_%s" % nm, ["C29"], "bounded", "%s encoder refuses the empty payload" % nm, tier="quick" if nm == "data" else "thorough", timeout=1500) for nm in NAMES]
      + [H("encode_over_%s" % nm, ["C29"], "bounded", "%s encoder refuses a payload one byte above the maximum" % nm, tier="quick" if nm in ("data", "band1", "error") else "thorough", timeout=1500) for nm in NAMES]
      + rt(1, "quick") + rt(2, "quick") + rt(4, "quick") + rt(6, "thorough") + rt(10, "thorough")
      + [H("band_any_1", ["C29", "C06"], "bounded", "decode_band/as_text/check_error on every 1-byte data line"),
         H("band_any_3", ["C29", "C06"], "bounded", "decode_band/as_text/check_error on every 3-byte data line")],
}]
ASSUMPTIONS = [
    ("C29", "the Verus proof of streaming/all_at_once uses hex_prefix through its contract (1 <= Wanted <= 65531, Line is never Data); that contract is discharged by the Kani harness pktline.hex_prefix_all over all 2^32 prefixes"),
    ("C29", "payload-length limits of the encoders are checked at the boundary lengths 0, max and max+1 only (a symbolic length makes two io::Error paths live at once, beyond CBMC)"),
    ("C29", "reader chunk-independence and side-band demultiplexing (StreamingPeekableIter, WithSidebands: generic Read over a 65520-byte buffer with callbacks) are undecided"),
    ("C29", "faster_hex scalar path is executed (cpuid stubbed to 'no SIMD'); SSE/AVX paths unverified"),
]
