"""U-pktline (C29, C06): packet-line framing."""
DEC = "gix-packetline/src/decode.rs"
VERUS = [{
    "id": "pktline.streaming", "props": ["C29", "C06"], "tier": "quick",
    "functions": ["gix_packetline::decode::streaming", "gix_packetline::decode::to_data_line", "gix_packetline::decode::all_at_once"],
    "parts": [
        {"include": "contracts/pktline/prelude.rs"},
        {"file": "gix-packetline/src/lib.rs", "item": r"const U16_HEX_BYTES: usize", "until": ";"},
        {"file": "gix-packetline/src/lib.rs", "item": r"const MAX_DATA_LEN: usize", "until": ";"},
        {"file": "gix-packetline/src/lib.rs", "item": r"const MAX_LINE_LEN: usize", "until": ";"},
        {"file": "gix-packetline/src/lib.rs", "item": r"pub enum PacketLineRef<'a>"},
        {"file": DEC, "item": r"pub enum Error\b", "nth": 1, "count": 2},
        {"file": DEC, "item": r"pub enum Stream<'a>"},
        {"file": DEC, "item": r"pub enum PacketLineOrWantedSize<'a>"},
        {"include": "contracts/pktline/hex_prefix_contract.rs"},
        {
            "file": DEC, "fn": "to_data_line",
            "orig_sig": "pub fn to_data_line(data: &[u8]) -> Result<PacketLineRef<'_>, Error>",
            "new_sig": "pub fn to_data_line(data: &[u8]) -> (r: Result<PacketLineRef<'_>, Error>)",
            "ensures": """        data.len() <= 65520 ==> r is Ok,
        match r { Ok(PacketLineRef::Data(d)) => d@ == data@, Ok(_) => false, Err(_) => data.len() > 65520 }""",
            "expect_loops": 0,
        },
        {
            "file": DEC, "fn": "streaming",
            "orig_sig": "pub fn streaming(data: &[u8]) -> Result<Stream<'_>, Error>",
            "new_sig": "pub fn streaming(data: &[u8]) -> (r: Result<Stream<'_>, Error>)",
            "ensures": """        match r {
            Ok(Stream::Complete { line, bytes_consumed }) => 4 <= bytes_consumed <= data.len() && bytes_consumed <= 65520
                && (match line { PacketLineRef::Data(d) => bytes_consumed > 4 && d@ == data@.subrange(4, bytes_consumed as int), _ => bytes_consumed == 4 }),
            Ok(Stream::Incomplete { bytes_needed }) => bytes_needed > 0 && data.len() + bytes_needed <= 65520,
            Err(_) => true,
        }""",
            "expect_loops": 0,
        },
        {
            "file": DEC, "fn": "all_at_once",
            "orig_sig": "pub fn all_at_once(data: &[u8]) -> Result<PacketLineRef<'_>, Error>",
            "new_sig": "pub fn all_at_once(data: &[u8]) -> (r: Result<PacketLineRef<'_>, Error>)",
            "ensures": """        match r {
            Ok(PacketLineRef::Data(d)) => 0 < d.len() && d.len() + 4 <= data.len() && d@ == data@.subrange(4, d.len() + 4),
            _ => true,
        }""",
            "expect_loops": 0,
        },
    ],
}]
KANI = []
