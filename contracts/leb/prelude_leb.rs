// SPEC for git's "offset encoding" (OFS_DELTA base distance), independent of the encoder:
// dec(d, i) is the value of the first i+1 bytes, every continuation adds one before shifting.
pub open spec fn dec(d: Seq<u8>, i: int) -> int
    decreases i
{
    if i <= 0 { (d[0] & 0x7f) as int } else { (dec(d, i - 1) + 1) * 128 + (d[i] & 0x7f) as int }
}
pub open spec fn cont(b: u8) -> bool { b & 0x80 != 0 }

pub proof fn lemma_dec_mono(d: Seq<u8>, i: int, j: int)
    requires 0 <= i <= j
    ensures 0 <= dec(d, i) <= dec(d, j)
    decreases j
{
    if j > 0 {
        if i < j { lemma_dec_mono(d, i, j - 1); }
        lemma_dec_mono(d, 0, j - 1);
        assert((d[j] & 0x7f) as int >= 0);
    } else {
        assert((d[0] & 0x7f) as int >= 0);
    }
}
/// the input holds a terminated encoding whose value fits into 64 bit
pub open spec fn well_formed(d: Seq<u8>, k: int) -> bool {
    0 <= k < d.len() && !cont(d[k]) && (forall|j: int| 0 <= j < k ==> cont(#[trigger] d[j])) && dec(d, k) <= u64::MAX
}
