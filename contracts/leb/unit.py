"""U-leb Verus part (C07): the slice decoders gix_features::decode::leb64 and
gix_pack::data::entry::decode::parse_header_info, verbatim, for input slices of ANY length."""

LEB_REQ = "        exists|k: int| well_formed(d@, k)"
LEB_ENS = """        0 < r.1 <= d.len(),
        !cont(d[r.1 - 1]),
        forall|j: int| 0 <= j < r.1 - 1 ==> cont(#[trigger] d[j]),
        r.0 as int == dec(d@, r.1 - 1)"""
LEB_INV = """        invariant
            1 <= i <= k + 1,
            k < d.len(),
            c == d[i - 1],
            value as int == dec(d@, i - 1),
            forall|j: int| 0 <= j < i - 1 ==> cont(#[trigger] d[j]),
            well_formed(d@, k),
        decreases d.len() - i,"""

VERUS = [
    {
        "id": "leb.leb64", "props": ["C07"], "tier": "quick",
        "functions": ["gix_features::decode::leb64"],
        "parts": [
            {"include": "contracts/leb/prelude_leb.rs"},
            {
                "file": "gix-features/src/decode.rs", "fn": "leb64",
                "orig_sig": "pub fn leb64(d: &[u8]) -> (u64, usize)",
                "new_sig": "pub fn leb64(d: &[u8]) -> (r: (u64, usize))",
                "requires": LEB_REQ, "ensures": LEB_ENS,
                "strip_macros": ["debug_assert"],
                "expect_loops": 1,
                "loops": {1: LEB_INV},
                "entry": "    let ghost k = choose|k: int| well_formed(d@, k);",
                "inserts": [
                    {"before": "while c & 0x80 != 0", "text": "    proof { assert((c as u64) & 0x7f == (c & 0x7f) as u64) by (bit_vector); }"},
                    {"before": "c = d[i];", "nth": 2, "count": 2, "text": """        proof {
            assert(cont(d[i - 1]));
            assert(i - 1 < k);
            lemma_dec_mono(d@, i as int, k);
            lemma_dec_mono(d@, i - 1, i as int);
        }"""},
                    {"before": "value += 1;", "text": """        proof {
            assert((value as int + 1) * 128 + (c & 0x7f) as int == dec(d@, i - 1));
            assert((c & 0x7f) as int >= 0);
            assert((value as int + 1) * 128 <= u64::MAX);
        }"""},
                    {"before": "value = (value << 7) + (u64::from(c) & 0x7f);", "text": """        proof {
            let v = value;
            assert(v <= 0x01ff_ffff_ffff_ffff) by (nonlinear_arith) requires v as int * 128 <= u64::MAX;
            assert(v << 7 == v * 128) by (bit_vector) requires v <= 0x01ff_ffff_ffff_ffff;
            assert((c as u64) & 0x7f == (c & 0x7f) as u64) by (bit_vector);
            assert((c & 0x7f) <= 0x7f) by (bit_vector);
        }"""},
                    {"before": "(value, i)", "text": """    proof {
        assert(!cont(d[i - 1]));
        if i - 1 < k { assert(cont(d[i - 1])); }
    }"""},
                ],
            },
        ],
    },
]
HDR_INV = """        invariant
            1 <= (i as int) <= k + 1,
            k < data.len(),
            c == data[(i as int) - 1],
                        (s as int) == 4 + 7 * ((i as int) - 1),
            size as int == hsize(data@, (i as int) - 1),
            forall|j: int| 0 <= j < (i as int) - 1 ==> cont(#[trigger] data[j]),
            hdr_well_formed(data@, k),
        decreases data.len() - (i as int),"""

VERUS.append({
    "id": "leb.parse_header_info", "props": ["C07"], "tier": "quick",
    "functions": ["gix_pack::data::entry::decode::parse_header_info"],
    "parts": [
        {"include": "contracts/leb/prelude_hdr.rs"},
        {
            "file": "gix-pack/src/data/entry/decode.rs", "fn": "parse_header_info",
            "orig_sig": "fn parse_header_info(data: &[u8]) -> (u8, u64, usize)",
            "new_sig": "pub fn parse_header_info(data: &[u8]) -> (r: (u8, u64, usize))",
            "requires": "        exists|k: int| hdr_well_formed(data@, k)",
            "ensures": """        r.0 == (data[0] >> 4) & 7,
        0 < r.2 <= data.len(),
        !cont(data[r.2 - 1]),
        forall|j: int| 0 <= j < r.2 - 1 ==> cont(#[trigger] data[j]),
        r.1 as int == hsize(data@, r.2 - 1)""",
            "expect_loops": 1,
            "loops": {1: HDR_INV},
            "entry": "    let ghost k = choose|k: int| hdr_well_formed(data@, k);",
            "inserts": [
                {"before": "while c & 0b1000_0000 != 0", "text": "    proof { assert((c as u64) & 0b0000_1111 == (c & 0x0f) as u64) by (bit_vector); }"},
                {"before": "c = data[i];", "text": """        proof {
            assert(cont(data[(i as int) - 1]));
            assert((i as int) - 1 < k);
            lemma_hsize_mono(data@, i as int, k);
        }"""},
                {"before": "size += u64::from(c & 0b0111_1111) << s;", "text": """        proof {
            let x = (c & 0b0111_1111) as u64;
            assert(hsize(data@, (i as int) - 1) == size as int + (c & 0x7f) as int * pow2(hshift((i as int) - 1)) as int);
            assert(hshift((i as int) - 1) == s as int);
            assert(x as int * pow2(s as nat) as int <= u64::MAX) by {
                lemma_hsize_mono(data@, 0, (i as int) - 2);
            }
            lemma_u64_shl_is_mul(x, s as u64);
        }"""},
                {"before": "(type_id, size, i)", "text": """    proof {
        assert(!cont(data[(i as int) - 1]));
        if (i as int) - 1 < k { assert(cont(data[(i as int) - 1])); }
    }"""},
            ],
        },
    ],
})
KANI = []
