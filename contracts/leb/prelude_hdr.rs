use vstd::arithmetic::power2::*;
use vstd::bits::*;

// SPEC of the pack entry header size encoding (independent of the encoder):
// byte 0 carries 4 size bits, every further byte 7 more, little endian.
pub open spec fn hshift(i: int) -> nat { if i <= 0 { 0 } else { (4 + 7 * (i - 1)) as nat } }
pub open spec fn hsize(d: Seq<u8>, i: int) -> int
    decreases i
{
    if i <= 0 { (d[0] & 0x0f) as int } else { hsize(d, i - 1) + (d[i] & 0x7f) as int * pow2(hshift(i)) as int }
}
pub open spec fn cont(b: u8) -> bool { b & 0x80 != 0 }
/// the input starts with a terminated header whose size fits into 64 bit
pub open spec fn hdr_well_formed(d: Seq<u8>, k: int) -> bool {
    0 <= k < d.len() && k <= 9 && !cont(d[k]) && (forall|j: int| 0 <= j < k ==> cont(#[trigger] d[j])) && hsize(d, k) <= u64::MAX
}
pub proof fn lemma_hsize_mono(d: Seq<u8>, i: int, j: int)
    requires 0 <= i <= j
    ensures 0 <= hsize(d, i) <= hsize(d, j)
    decreases j
{
    if j > 0 {
        if i < j { lemma_hsize_mono(d, i, j - 1); }
        lemma_hsize_mono(d, 0, j - 1);
        assert((d[j] & 0x7f) as int >= 0);
        lemma_pow2_pos(hshift(j));
        assert((d[j] & 0x7f) as int * pow2(hshift(j)) as int >= 0) by (nonlinear_arith)
            requires (d[j] & 0x7f) as int >= 0, pow2(hshift(j)) > 0;
    } else {
        assert((d[0] & 0x0f) as int >= 0);
    }
}
