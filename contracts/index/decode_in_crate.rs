// U-index-entry, decoding side (C24, C06): included into gix-index/src/decode/entries.rs under cfg(any(kani, gix_verif)).
// SPEC = git's documented on-disk entry layout (Documentation/gitformat-index.txt, read-cache.c ondisk_ce_size):
//   40 bytes stat+mode words (big endian), 20 bytes id, 16-bit flags (assume-valid|extended|stage|name length, 0xfff = saturated),
//   [16-bit extended flags if the extended bit is set], path, 1-8 NUL bytes so that the entry is a multiple of 8 bytes (V2/V3).
include!(concat!(env!("GIX_VERIF_DIR"), "/engine/src_trait.rs"));

fn be32(d: &[u8], at: usize) -> u32 { u32::from_be_bytes([d[at], d[at + 1], d[at + 2], d[at + 3]]) }
fn be16(d: &[u8], at: usize) -> u16 { u16::from_be_bytes([d[at], d[at + 1]]) }

/// load_one on ANY N bytes (V2/V3 layout): never panics; when it yields an entry, the entry and the
/// number of bytes consumed are what git's layout says
fn h_load_one<const N: usize, S: Src>(s: &mut S) {
    let data: [u8; N] = s.bytes();
    let mut backing: Vec<u8> = Vec::with_capacity(16);
    let r = load_one(&data[..], &mut backing, 20, false, None);
    let flags_word = be16(&data, 60);
    let ext = if flags_word & 0x4000 != 0 { 2 } else { 0 };
    let len_field = (flags_word & 0x0fff) as usize;
    if let Some((e, rest)) = r {
        let consumed = N - rest.len();
        let path_len = e.path.end - e.path.start;
        assert!(consumed == (62 + ext + path_len + 8) & !7, "entry occupies align8(62 + ext + len + 1) bytes like git's ondisk_ce_size");
        if len_field < 0xfff { assert!(path_len == len_field, "path length is the 12-bit length field"); }
        let mut i = 0;
        while i < path_len { assert!(backing[e.path.start + i] == data[62 + ext + i], "path bytes"); if len_field == 0xfff { assert!(data[62 + ext + i] != 0); } i += 1; }
        if len_field == 0xfff { assert!(data[62 + ext + path_len] == 0, "a saturated length field means the path is NUL terminated"); }
        assert!(e.stat.ctime.secs == be32(&data, 0) && e.stat.ctime.nsecs == be32(&data, 4) && e.stat.mtime.secs == be32(&data, 8) && e.stat.mtime.nsecs == be32(&data, 12));
        assert!(e.stat.dev == be32(&data, 16) && e.stat.ino == be32(&data, 20) && e.stat.uid == be32(&data, 28) && e.stat.gid == be32(&data, 32) && e.stat.size == be32(&data, 36));
        assert!(e.mode == entry::Mode::from_bits_truncate(be32(&data, 24)), "mode word");
        assert!(e.id.as_bytes() == &data[40..60], "object id");
        assert!(e.flags.bits() & 0xf000 == (flags_word & 0xf000) as u32, "stage / extended / assume-valid bits");
        assert!(e.flags.bits() & 0x0fff == 0, "the length field is not kept in memory");
        if ext == 2 {
            let xw = be16(&data, 62);
            assert!(e.flags.contains(entry::Flags::INTENT_TO_ADD) == (xw & (1 << 13) != 0) && e.flags.contains(entry::Flags::SKIP_WORKTREE) == (xw & (1 << 14) != 0), "extended flags");
        }
    } else if ext == 0 && len_field < 0xfff && N >= ((62 + len_field + 8) & !7) {
        assert!(false, "a complete V2 entry must decode");
    }
    s.reach();
}

/// boundary of the saturated length field: a path of exactly L bytes (L around 4095; content concrete, because CBMC cannot carry
/// 4 KiB of symbolic path) with symbolic stat words, id, stage/assume-valid bits and (EXT) extended flags, followed by the
/// start of a next entry. The decoded path must be those L bytes and the entry must end at align8(62 + ext + L + 1).
fn h_load_one_long<const L: usize, const EXT: bool, const N: usize, S: Src>(s: &mut S) {
    let mut data = [0u8; N];
    let head: [u8; 60] = s.bytes();
    let mut i = 0;
    while i < 60 { data[i] = head[i]; i += 1; }
    let hi = s.u8();
    let len_field: u16 = if L >= 0xfff { 0xfff } else { L as u16 };
    let flags_word: u16 = (((hi & 0xb0) as u16) << 8) | if EXT { 0x4000 } else { 0 } | len_field;
    data[60] = (flags_word >> 8) as u8; data[61] = flags_word as u8;
    let ext = if EXT { 2 } else { 0 };
    if EXT { let x = s.u8(); data[62] = x & 0x60; data[63] = 0; }
    i = 0;
    while i < L { data[62 + ext + i] = b'a' + (i % 7) as u8; i += 1; }
    let entry_len = (62 + ext + L + 8) & !7;
    // bytes after the entry: the beginning of a next entry (non-zero, so that skipping too little or too much is visible)
    i = entry_len;
    while i < N { data[i] = 0x55; i += 1; }
    let mut backing: Vec<u8> = Vec::with_capacity(L + 8);
    let (e, rest) = load_one(&data[..], &mut backing, 20, false, None).expect("a complete entry decodes");
    assert!(e.path.end - e.path.start == L, "the path is exactly the L bytes before the terminating NUL");
    assert!(N - rest.len() == entry_len, "the entry ends at align8(62 + ext + len + 1)");
    assert!(backing[e.path.start] == b'a' && backing[e.path.end - 1] == b'a' + ((L - 1) % 7) as u8, "first and last path byte");
    s.reach();
}

harnesses! {
    #[kani::proof] #[kani::unwind(4110)] load_one_long_4094 => h_load_one_long::<4094, false, 4168, _>;
    #[kani::proof] #[kani::unwind(4110)] load_one_long_4095 => h_load_one_long::<4095, false, 4168, _>;
    #[kani::proof] #[kani::unwind(4110)] load_one_long_4095_ext => h_load_one_long::<4095, true, 4176, _>;
    #[kani::proof] #[kani::unwind(4110)] load_one_long_4096 => h_load_one_long::<4096, false, 4176, _>;
    #[kani::proof] #[kani::unwind(4110)] load_one_long_4100_ext => h_load_one_long::<4100, true, 4176, _>;
    #[kani::proof] #[kani::unwind(22)] load_one_63 => h_load_one::<63, _>;
    #[kani::proof] #[kani::unwind(22)] load_one_64 => h_load_one::<64, _>;
    #[kani::proof] #[kani::unwind(22)] load_one_67 => h_load_one::<67, _>;
    #[kani::proof] #[kani::unwind(22)] load_one_72 => h_load_one::<72, _>;
    #[kani::proof] #[kani::unwind(28)] load_one_80 => h_load_one::<80, _>;
    #[kani::proof] #[kani::unwind(44)] load_one_96 => h_load_one::<96, _>;
}
replay_test!();
