"""U-index-entry (C24, C25, C06): per-entry layout of index files, decoding and writing."""
def H(name, props, bound, tier="quick", timeout=1800, mem_gb=12, functions=None):
    return {"name": name, "props": props, "tier": tier, "kind": "bounded", "bound": bound, "timeout": timeout, "mem_gb": mem_gb, "functions": functions}
DEC = ["gix_index::decode::entries::load_one", "gix_index::decode::entries::skip_padding", "gix_index::util::split_at_byte_exclusive", "gix_index::util::split_at_pos",
       "gix_index::entry::at_rest::Flags::to_memory", "gix_index::entry::at_rest::FlagsExtended::to_flags"]
WR = ["gix_index::write::entries", "gix_index::Entry::write_to", "gix_index::entry::Flags::to_storage", "gix_index::entry::at_rest::FlagsExtended::from_flags"]
KANI = [
    {"mode": "in_crate", "repo_crate": "gix-index", "harness_prefix": "decode::entries::verif_kani::kani_proofs::",
     "harnesses": [
        H("load_one_63", ["C24", "C06"], "every 63-byte input (truncated entry)", functions=DEC),
        H("load_one_64", ["C24", "C06"], "every 64-byte input (V2/V3 layout, path <= 1 byte)", functions=DEC),
        H("load_one_67", ["C24", "C06"], "every 67-byte input (entry cut inside its padding)", functions=DEC),
        H("load_one_72", ["C24", "C06"], "every 72-byte input (path <= 9 bytes, extended flags, saturated length field with NUL-terminated path)", mem_gb=16, functions=DEC),
        H("load_one_long_4094", ["C24"], "path of exactly 4094 bytes (concrete content), symbolic stat/id/flag bits, start of a following entry", tier="off", timeout=2400, mem_gb=16, functions=DEC),
        H("load_one_long_4095", ["C24"], "path of exactly 4095 bytes: the first saturated length", tier="off", timeout=2400, mem_gb=16, functions=DEC),
        H("load_one_long_4095_ext", ["C24"], "path of exactly 4095 bytes with extended flags (1 byte of padding)", tier="off", timeout=2400, mem_gb=16, functions=DEC),
        H("load_one_long_4096", ["C24"], "path of exactly 4096 bytes", tier="off", timeout=2400, mem_gb=16, functions=DEC),
        H("load_one_long_4100_ext", ["C24"], "path of 4100 bytes with extended flags", tier="off", timeout=2400, mem_gb=16, functions=DEC),
        H("load_one_80", ["C24", "C06"], "every 80-byte input", tier="thorough", timeout=3600, mem_gb=20, functions=DEC),
        H("load_one_96", ["C24"], "every 96-byte input", tier="thorough", timeout=5400, mem_gb=24, functions=DEC),
     ]},
    {"mode": "in_crate", "repo_crate": "gix-index", "harness_prefix": "write::verif_kani::kani_proofs::", "unit_suffix": "w",
     "harnesses": [
        {"name": "flag_words", "props": ["C25", "C24"], "tier": "quick", "kind": "full", "bound": "every u32 of in-memory flags x every length field x every u16 extended word (loop-free)", "timeout": 900, "mem_gb": 12,
         "functions": ["gix_index::entry::Flags::to_storage", "gix_index::entry::at_rest::Flags::to_memory", "gix_index::entry::at_rest::FlagsExtended::from_flags", "gix_index::entry::at_rest::FlagsExtended::to_flags"]},
        H("write_entry_1", ["C25"], "1 entry, path of 1 arbitrary byte, all stat/mode/id/flag values, header offset 0 or 12", tier="off", mem_gb=16, functions=WR),
        H("write_entry_2", ["C25"], "1 entry, path of 2 bytes", tier="off", mem_gb=16, functions=WR),
        H("write_entry_5", ["C25"], "1 entry, path of 5 bytes", tier="off", mem_gb=16, functions=WR),
        H("write_entry_9", ["C25"], "1 entry, path of 9 bytes", tier="off", mem_gb=16, functions=WR),
        H("write_entries_1_2", ["C25"], "2 entries, paths of 1 and 2 arbitrary bytes, all stat/mode/id/flag values, header offset 0 or 12", tier="off", functions=WR),
        H("write_entries_2_1", ["C25"], "paths of 2 and 1 bytes", tier="off", functions=WR),
        H("write_entries_3_6", ["C25"], "paths of 3 and 6 bytes", tier="off", functions=WR),
        H("write_entries_6_1", ["C25"], "paths of 6 and 1 bytes", tier="off", functions=WR),
        H("write_entries_9_10", ["C25"], "paths of 9 and 10 bytes", tier="off", functions=WR),
     ]},
]
# load_one_long_*: boundary harness for paths around 4095 bytes (concrete content). Measured: no result in 40 min (symbolic execution of
# the 4 K-iteration NUL search and path copy); tier off. The saturated-length branch is therefore only exercised with short paths.
ASSUMPTIONS = [
    ("C24", "only the per-entry layout clause is under contract: an entry decoded by load_one has git's documented fields and occupies align8(62+ext+len+1) bytes (V2/V3), including the saturated 0xfff length field. Thread-limit independence, extensions, V4 path compression and 'what git stored' as a whole are undecided"),
    ("C25", "ONLY the flag-word clause is decided (full domain): the 16-bit flags word and the extended word produced from in-memory flags have git's bit layout and decode back. The byte layout written by write::entries / Entry::write_to (field order, NUL padding to 8, 0xfff saturation of the length field) is NOT decided: every harness through that code exhausts CBMC (io::Result drop glue is unrolled recursively up to the unwind bound: > 25 min / > 30 GB even for one entry with a 1-byte path); those harnesses are kept with tier 'off'. Checksum, header, extensions and 'git accepts the file' are undecided as well"),
    ("C24", "the layout specification is git's documentation (gitformat-index, ondisk_ce_size), written as assertions in contracts/index/*.rs"),
]
