// U-index-entry, writing side (C25): included into gix-index/src/write.rs under cfg(any(kani, gix_verif)).
// The bytes produced by `entries()` (Entry::write_to + padding) are compared with git's documented layout.
include!(concat!(env!("GIX_VERIF_DIR"), "/engine/src_trait.rs"));

fn be32(d: &[u8], at: usize) -> u32 { u32::from_be_bytes([d[at], d[at + 1], d[at + 2], d[at + 3]]) }
fn be16(d: &[u8], at: usize) -> u16 { u16::from_be_bytes([d[at], d[at + 1]]) }

struct Buf { b: [u8; 176], n: usize }
impl std::io::Write for Buf {
    fn write(&mut self, d: &[u8]) -> std::io::Result<usize> { self.write_all(d)?; Ok(d.len()) }
    fn write_all(&mut self, d: &[u8]) -> std::io::Result<()> { self.b[self.n..self.n + d.len()].copy_from_slice(d); self.n += d.len(); Ok(()) }
    fn flush(&mut self) -> std::io::Result<()> { Ok(()) }
}

fn any_entry<S: Src>(s: &mut S, path: std::ops::Range<usize>) -> crate::Entry {
    let fl = s.u32();
    let id: [u8; 20] = s.bytes();
    crate::Entry {
        stat: entry::Stat {
            ctime: entry::stat::Time { secs: s.u32(), nsecs: s.u32() }, mtime: entry::stat::Time { secs: s.u32(), nsecs: s.u32() },
            dev: s.u32(), ino: s.u32(), uid: s.u32(), gid: s.u32(), size: s.u32(),
        },
        id: gix_hash::ObjectId::from(id),
        // any combination of flag bits except REMOVE (such entries are skipped) -- the path-length bits are never set in memory
        flags: entry::Flags::from_bits_retain(fl & !0x0fff & !entry::Flags::REMOVE.bits()),
        mode: entry::Mode::from_bits_truncate(s.u32()),
        path,
    }
}
/// check one entry at out[at..] against git's layout; returns its on-disk size
fn check_layout(out: &[u8], at: usize, e: &crate::Entry, path: &[u8]) -> usize {
    assert!(be32(out, at) == e.stat.ctime.secs && be32(out, at + 4) == e.stat.ctime.nsecs && be32(out, at + 8) == e.stat.mtime.secs && be32(out, at + 12) == e.stat.mtime.nsecs);
    assert!(be32(out, at + 16) == e.stat.dev && be32(out, at + 20) == e.stat.ino && be32(out, at + 24) == e.mode.bits() && be32(out, at + 28) == e.stat.uid && be32(out, at + 32) == e.stat.gid && be32(out, at + 36) == e.stat.size);
    assert!(&out[at + 40..at + 60] == e.id.as_bytes());
    let fw = be16(out, at + 60);
    let extended = e.flags.contains(entry::Flags::EXTENDED);
    assert!((fw & 0x0fff) as usize == path.len().min(0xfff), "length field = min(len, 0xfff)");
    assert!((fw & 0xf000) as u32 == e.flags.bits() & 0xf000, "assume-valid / extended / stage bits");
    let ext = if extended { 2 } else { 0 };
    if extended {
        let xw = be16(out, at + 62);
        assert!((xw & (1 << 13) != 0) == e.flags.contains(entry::Flags::INTENT_TO_ADD) && (xw & (1 << 14) != 0) == e.flags.contains(entry::Flags::SKIP_WORKTREE) && xw & !(3 << 13) == 0, "extended flag word");
    }
    let mut i = 0;
    while i < path.len() { assert!(out[at + 62 + ext + i] == path[i]); i += 1; }
    let size = (62 + ext + path.len() + 8) & !7;
    i = 62 + ext + path.len();
    while i < size { assert!(out[at + i] == 0, "NUL padding up to a multiple of 8"); i += 1; }
    size
}
/// entries(): every entry is laid out like git's and starts right after its predecessor; header offset 0 or 12
fn h_write_entries<const P1: usize, const P2: usize, S: Src>(s: &mut S) {
    // State::new() reads the clock (clock_gettime is outside Kani); same fields, fixed timestamp
    let mut state = crate::State {
        object_hash: gix_hash::Kind::Sha1,
        timestamp: filetime::FileTime::from_unix_time(0, 0),
        version: crate::Version::V2,
        entries: vec![],
        path_backing: vec![],
        is_sparse: false,
        tree: None,
        link: None,
        resolve_undo: None,
        untracked: None,
        fs_monitor: None,
        offset_table_at_decode_time: false,
        end_of_index_at_decode_time: false,
    };
    let p1: [u8; P1] = s.bytes();
    let p2: [u8; P2] = s.bytes();
    state.path_backing.extend_from_slice(&p1);
    state.path_backing.extend_from_slice(&p2);
    let e1 = any_entry(s, 0..P1);
    let e2 = any_entry(s, P1..P1 + P2);
    state.entries.push(e1.clone());
    state.entries.push(e2.clone());
    let header = if s.bool() { 12u32 } else { 0 };
    let mut out = util::CountBytes::new(Buf { b: [0u8; 176], n: 0 });
    // the 12-byte header was already counted by the caller
    out.count = header;
    let end = entries(&mut out, &state, header).expect("writer never fails");
    let buf = &out.inner.b;
    let s1 = check_layout(buf, 0, &e1, &p1);
    let s2 = check_layout(buf, s1, &e2, &p2);
    assert!(out.inner.n == s1 + s2 && end == header + (s1 + s2) as u32, "entries are contiguous and the byte count is reported");
    s.reach();
}
/// single entry variant (cheaper): layout of one entry at header offset 0 or 12
fn h_write_entry<const P1: usize, S: Src>(s: &mut S) {
    let mut state = crate::State {
        object_hash: gix_hash::Kind::Sha1, timestamp: filetime::FileTime::from_unix_time(0, 0), version: crate::Version::V2,
        entries: vec![], path_backing: vec![], is_sparse: false, tree: None, link: None, resolve_undo: None, untracked: None,
        fs_monitor: None, offset_table_at_decode_time: false, end_of_index_at_decode_time: false,
    };
    let p1: [u8; P1] = s.bytes();
    state.path_backing.extend_from_slice(&p1);
    let e1 = any_entry(s, 0..P1);
    state.entries.push(e1.clone());
    let header = if s.bool() { 12u32 } else { 0 };
    let mut out = util::CountBytes::new(Buf { b: [0u8; 176], n: 0 });
    out.count = header;
    let end = entries(&mut out, &state, header).expect("writer never fails");
    let s1 = check_layout(&out.inner.b, 0, &e1, &p1);
    assert!(out.inner.n == s1 && end == header + s1 as u32, "entry size is a multiple of 8 and the byte count is reported");
    s.reach();
}

/// flag words, every u32 of in-memory flags (loop-free, complete): what is stored in the 16-bit flags word and in the
/// extended word is exactly git's layout (assume-valid 0x8000, extended 0x4000, stage 0x3000; extended word: intent-to-add
/// 1<<13, skip-worktree 1<<14), and decoding them gives the same flags back; unknown extended bits are refused
fn h_flag_words<S: Src>(s: &mut S) {
    let fl = s.u32();
    let mem = entry::Flags::from_bits_retain(fl);
    let stored: u16 = mem.to_storage().bits();
    assert!(stored == (fl & 0xf000) as u16, "flags word carries bits 12..15 only (the length is or-ed in by the writer)");
    let len = s.u16();
    s.assume(len <= 0x0fff);
    let back = entry::at_rest::Flags::from_bits_retain(stored | len).to_memory();
    assert!(back.bits() == (fl & 0xf000) | len as u32, "to_memory keeps the 16 stored bits");
    let xw: u16 = entry::at_rest::FlagsExtended::from_flags(mem).bits();
    assert!(xw == ((fl >> 16) as u16 & 0x6000), "extended word = intent-to-add (bit 13) | skip-worktree (bit 14)");
    let xback = entry::at_rest::FlagsExtended::from_bits(xw).expect("known bits").to_flags().expect("valid");
    assert!(xback.bits() == fl & ((1 << 29) | (1 << 30)), "extended flags decode to the same in-memory bits");
    let any = s.u16();
    assert!(entry::at_rest::FlagsExtended::from_bits(any).is_some() == (any & !0x6000 == 0), "unknown extended bits are refused (git: unknown index entry format)");
    s.reach();
}

harnesses! {
    #[kani::proof] #[kani::unwind(4)] flag_words => h_flag_words::<_>;
    #[kani::proof] #[kani::unwind(12)] write_entry_1 => h_write_entry::<1, _>;
    #[kani::proof] #[kani::unwind(12)] write_entry_2 => h_write_entry::<2, _>;
    #[kani::proof] #[kani::unwind(12)] write_entry_5 => h_write_entry::<5, _>;
    #[kani::proof] #[kani::unwind(14)] write_entry_9 => h_write_entry::<9, _>;
    #[kani::proof] #[kani::unwind(24)] write_entries_1_2 => h_write_entries::<1, 2, _>;
    #[kani::proof] #[kani::unwind(24)] write_entries_2_1 => h_write_entries::<2, 1, _>;
    #[kani::proof] #[kani::unwind(24)] write_entries_3_6 => h_write_entries::<3, 6, _>;
    #[kani::proof] #[kani::unwind(24)] write_entries_9_10 => h_write_entries::<9, 10, _>;
    #[kani::proof] #[kani::unwind(24)] write_entries_6_1 => h_write_entries::<6, 1, _>;
}
replay_test!();
