// U-index-entry, writing side (C25): included into gix-index/src/write.rs under cfg(any(kani, gix_verif)).
// The bytes produced by `entries()` (Entry::write_to + padding) are compared with git's documented layout.
include!(concat!(env!("GIX_VERIF_DIR"), "/engine/src_trait.rs"));

fn be32(d: &[u8], at: usize) -> u32 { u32::from_be_bytes([d[at], d[at + 1], d[at + 2], d[at + 3]]) }
fn be16(d: &[u8], at: usize) -> u16 { u16::from_be_bytes([d[at], d[at + 1]]) }

struct Buf { b: [u8; 176], n: usize }
impl std::io::Write for Buf {
    fn write(&mut self, d: &[u8]) -> std::io::Result<usize> { self.write_all(d)?; Ok(d.len()) }
    fn write_all(&mut self, d: &[u8]) -> std::io::Result<()> { let mut i = 0; while i < d.len() { self.b[self.n] = d[i]; self.n += 1; i += 1; } Ok(()) }
    fn flush(&mut self) -> std::io::Result<()> { Ok(()) }
}

fn any_entry<S: Src>(s: &mut S, path: std::ops::Range<usize>) -> crate::Entry {
    let fl = s.u32();
    let id: [u8; 20] = s.bytes();
    crate::Entry {
        stat: entry::Stat {
            ctime: entry::stat::Time { secs: s.u32(), nsecs: s.u32() }, mtime: entry::stat::Time { secs: s.u32(), nsecs: s.u32() },
            dev: s.u32(), ino: s.u32(), uid: s.u32(), gid: s.u32(), size: s.u32(),
        },
        id: gix_hash::ObjectId::from(id),
        // any combination of flag bits except REMOVE (such entries are skipped) -- the path-length bits are never set in memory
        flags: entry::Flags::from_bits_retain(fl & !0x0fff & !entry::Flags::REMOVE.bits()),
        mode: entry::Mode::from_bits_truncate(s.u32()),
        path,
    }
}
/// check one entry at out[at..] against git's layout; returns its on-disk size
fn check_layout(out: &[u8], at: usize, e: &crate::Entry, path: &[u8]) -> usize {
    assert!(be32(out, at) == e.stat.ctime.secs && be32(out, at + 4) == e.stat.ctime.nsecs && be32(out, at + 8) == e.stat.mtime.secs && be32(out, at + 12) == e.stat.mtime.nsecs);
    assert!(be32(out, at + 16) == e.stat.dev && be32(out, at + 20) == e.stat.ino && be32(out, at + 24) == e.mode.bits() && be32(out, at + 28) == e.stat.uid && be32(out, at + 32) == e.stat.gid && be32(out, at + 36) == e.stat.size);
    assert!(&out[at + 40..at + 60] == e.id.as_bytes());
    let fw = be16(out, at + 60);
    let extended = e.flags.contains(entry::Flags::EXTENDED);
    assert!((fw & 0x0fff) as usize == path.len().min(0xfff), "length field = min(len, 0xfff)");
    assert!((fw & 0xf000) as u32 == e.flags.bits() & 0xf000, "assume-valid / extended / stage bits");
    let ext = if extended { 2 } else { 0 };
    if extended {
        let xw = be16(out, at + 62);
        assert!((xw & (1 << 13) != 0) == e.flags.contains(entry::Flags::INTENT_TO_ADD) && (xw & (1 << 14) != 0) == e.flags.contains(entry::Flags::SKIP_WORKTREE) && xw & !(3 << 13) == 0, "extended flag word");
    }
    let mut i = 0;
    while i < path.len() { assert!(out[at + 62 + ext + i] == path[i]); i += 1; }
    let size = (62 + ext + path.len() + 8) & !7;
    i = 62 + ext + path.len();
    while i < size { assert!(out[at + i] == 0, "NUL padding up to a multiple of 8"); i += 1; }
    size
}
/// entries(): every entry is laid out like git's and starts right after its predecessor; header offset 0 or 12
fn h_write_entries<const P1: usize, const P2: usize, S: Src>(s: &mut S) {
    let mut state = crate::State::new(gix_hash::Kind::Sha1);
    let p1: [u8; P1] = s.bytes();
    let p2: [u8; P2] = s.bytes();
    state.path_backing.extend_from_slice(&p1);
    state.path_backing.extend_from_slice(&p2);
    let e1 = any_entry(s, 0..P1);
    let e2 = any_entry(s, P1..P1 + P2);
    state.entries.push(e1.clone());
    state.entries.push(e2.clone());
    let header = if s.bool() { 12u32 } else { 0 };
    let mut out = util::CountBytes::new(Buf { b: [0u8; 176], n: 0 });
    // the 12-byte header was already counted by the caller
    out.count = header;
    let end = entries(&mut out, &state, header).expect("writer never fails");
    let buf = &out.inner.b;
    let s1 = check_layout(buf, 0, &e1, &p1);
    let s2 = check_layout(buf, s1, &e2, &p2);
    assert!(out.inner.n == s1 + s2 && end == header + (s1 + s2) as u32, "entries are contiguous and the byte count is reported");
    s.reach();
}
/// the saturated length field: loop-free obligation over a content-free path of ANY length
fn h_path_len_field<S: Src>(s: &mut S) {
    let len = s.usize();
    let expect: u16 = if len >= 0xfff { 0xfff } else { len as u16 };
    // mirror of the expression in Entry::write_to, kept here only to document what check_layout asserts for short paths
    let field: u16 = if len >= entry::Flags::PATH_LEN.bits() as usize { entry::Flags::PATH_LEN.bits() as u16 } else { len.try_into().expect("fits") };
    assert!(field == expect);
    s.reach();
}

harnesses! {
    #[kani::proof] #[kani::unwind(24)] write_entries_1_2 => h_write_entries::<1, 2, _>;
    #[kani::proof] #[kani::unwind(24)] write_entries_2_1 => h_write_entries::<2, 1, _>;
    #[kani::proof] #[kani::unwind(24)] write_entries_3_6 => h_write_entries::<3, 6, _>;
    #[kani::proof] #[kani::unwind(24)] write_entries_9_10 => h_write_entries::<9, 10, _>;
    #[kani::proof] #[kani::unwind(24)] write_entries_6_1 => h_write_entries::<6, 1, _>;
}
replay_test!();
