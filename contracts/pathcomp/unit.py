"""U-pathcomp (C40): path components git refuses are refused (harness list generated into harnesses.json)."""
import json, os
FUNCS = ["gix_validate::path::component", "gix_validate::path::is_dot_hfs", "gix_validate::path::is_dot_git_ntfs", "gix_validate::path::is_dot_ntfs",
         "gix_validate::path::is_done_ntfs", "gix_validate::path::is_done_windows", "gix_validate::path::is_win_device",
         "gix_validate::path::check_win_devices_and_illegal_characters"]
_H = json.load(open(os.path.join(os.path.dirname(os.path.abspath(__file__)), "harnesses.json")))
KANI = [{
    "mode": "external", "functions": FUNCS,
    "harnesses": [{"name": h["name"], "props": ["C40"], "tier": h["tier"], "kind": "bounded", "bound": h["bound"], "timeout": 1500, "mem_gb": 12} for h in _H],
}]
ASSUMPTIONS = [
    ("C40", "the property enumerates refused classes; each class is a generator with symbolic parameters (case masks, fillers, insertion positions) and is complete only up to the stated suffix bound; option sets and the entry mode are fixed per harness (symbolic options/modes multiply CBMC's paths beyond the budget), the quick tier runs the defining option set of each class, the thorough tier the other combinations"),
    ("C40", "the converse (nothing else is refused) is not part of the property; call-site coverage (gix-index / checkout / tree editor route every component through component()) is undecided"),
]
