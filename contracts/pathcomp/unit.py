"""U-pathcomp (C40): path components git refuses are refused."""
FUNCS = ["gix_validate::path::component", "gix_validate::path::is_dot_hfs", "gix_validate::path::is_dot_git_ntfs", "gix_validate::path::is_dot_ntfs",
         "gix_validate::path::is_done_ntfs", "gix_validate::path::is_done_windows", "gix_validate::path::is_win_device",
         "gix_validate::path::check_win_devices_and_illegal_characters"]
def H(name, bound, tier="quick", timeout=900, mem_gb=12):
    return {"name": name, "props": ["C40"], "tier": tier, "kind": "bounded", "bound": bound + " (mode None unless stated; .gitmodules families: symlink)", "timeout": timeout, "mem_gb": mem_gb}
KANI = [{
    "mode": "external", "functions": FUNCS,
    "harnesses": [
        H("dotgit_case", "(1) .git, all 8 case masks, all option combinations, both modes"),
        H("dotgit_case_symlink", "(1) .git, all case masks and options, mode = symlink", tier="thorough"),
        H("ntfs_dotgit_t1_symlink", "(2) .git + 1 of {' ','.'}, mode = symlink", tier="thorough"),
        H("ntfs_dotgit_t0", "(2) .git any case, no suffix, protect_ntfs", tier="thorough"),
        H("ntfs_dotgit_t1", "(2) .git + 1 byte from {' ','.'}"),
        H("ntfs_dotgit_t2", "(2) .git + 2 bytes from {' ','.'}", tier="thorough"),
        H("ntfs_dotgit_t3", "(2) .git + 3 bytes from {' ','.'}", tier="thorough"),
        H("ntfs_dotgit_t5", "(2) .git + 5 bytes from {' ','.'}", tier="thorough"),
        H("ntfs_dotgit_t0_stream1", "(2) .git + ':' + 1 arbitrary byte"),
        H("ntfs_dotgit_t1_stream2", "(2) .git + 1 of {' ','.'} + ':' + 2 arbitrary bytes", tier="thorough"),
        H("ntfs_short_t0", "(2) git~1 any case", tier="thorough"),
        H("ntfs_short_t2", "(2) git~1 + 2 bytes from {' ','.'}", tier="thorough"),
        H("ntfs_short_t1_stream1", "(2) git~1 + 1 of {' ','.'} + ':' + 1 arbitrary byte"),
        H("hfs_dotgit_k0", "(3) .git any case under protect_hfs", tier="thorough"),
        H("hfs_dotgit_k1", "(3) .git with 1 of the 16 ignorable code points at any of 5 positions"),
        H("hfs_dotgit_k2", "(3) .git with 2 ignorable code points at any positions", tier="thorough"),
        H("hfs_dotgit_k3", "(3) .git with 3 ignorable code points", tier="thorough", timeout=2400),
        H("hfs_modules_k0", "(4) symlink .gitmodules any case under protect_hfs"),
        H("hfs_modules_k1", "(4) symlink .gitmodules with 1 ignorable code point at any of 12 positions", tier="thorough"),
        H("hfs_modules_k2", "(4) symlink .gitmodules with 2 ignorable code points", tier="thorough", timeout=2400),
        H("ntfs_modules_t0", "(4) symlink .gitmodules any case under protect_ntfs", tier="thorough"),
        H("ntfs_modules_t2", "(4) symlink .gitmodules + 2 bytes from {' ','.'}", tier="thorough"),
        H("ntfs_modules_t1_stream1", "(4) symlink .gitmodules + 1 of {' ','.'} + ':' + 1 arbitrary byte"),
        H("ntfs_modules_short_t0", "(4) symlink gitmod~1..4 any case"),
        H("ntfs_modules_short_t2", "(4) symlink gitmod~1..4 + 2 bytes from {' ','.'}", tier="thorough"),
        H("ntfs_modules_hash_t0", "(4) symlink hashed 8.3 names: prefix of gi7eba (0..6 bytes, any case) ~ digits, 8 bytes"),
        H("ntfs_modules_hash_t2", "(4) hashed 8.3 names + 2 bytes from {' ','.'}", tier="thorough"),
        H("win_device_end", "(5) CON PRN AUX NUL COM1-9 LPT0-9 CONIN$ CONOUT$ any case"),
        H("win_device_sp2_end", "(5) device + 2 spaces", tier="thorough"),
        H("win_device_dot2", "(5) device + '.' + 2 arbitrary bytes", tier="thorough"),
        H("win_device_sp1_colon2", "(5) device + space + ':' + 2 arbitrary bytes"),
        H("separators_3", "(6) 3-byte components containing '/' (or '\\\\' under protect_windows) at any position; the empty component"),
    ],
}]
ASSUMPTIONS = [
    ("C40", "the property enumerates refused classes; each class is a generator with symbolic parameters and is complete only up to the stated suffix bound. The converse (nothing else is refused) is not part of the property"),
    ("C40", "call-site coverage (that gix-index / checkout / tree editor route every component through component()) is a call-site audit, not a contract: undecided"),
]
