// U-pathcomp (C40): gix_validate::path::component must REFUSE every member of the families of names
// git refuses under core.protectNTFS / core.protectHFS (generators with symbolic parameters).
include!("../../../../engine/src_trait.rs");
use bstr::ByteSlice;
use gix_validate::path::{component, component::{Mode, Options}};

#[allow(dead_code)]
fn no_cpuid(_leaf: u32, _sub: u32) -> std::arch::x86_64::CpuidResult { std::arch::x86_64::CpuidResult { eax: 0, ebx: 0, ecx: 0, edx: 0 } }
#[allow(dead_code)]
fn no_cpuid1(_leaf: u32) -> std::arch::x86_64::CpuidResult { std::arch::x86_64::CpuidResult { eax: 0, ebx: 0, ecx: 0, edx: 0 } }

fn mode_of(symlink: bool) -> Option<Mode> { if symlink { Some(Mode::Symlink) } else { None } }
/// write `word` into out[at..] flipping the case of ASCII letters according to a symbolic mask
fn put_case<S: Src>(s: &mut S, out: &mut [u8], at: usize, word: &[u8]) {
    let mut i = 0;
    while i < word.len() {
        let c = word[i];
        out[at + i] = if c.is_ascii_alphabetic() && s.bool() { c ^ 0x20 } else { c };
        i += 1;
    }
}
/// fill out[at..at+n] with symbolic choices from {' ', '.'}
fn put_space_dot<S: Src>(s: &mut S, out: &mut [u8], at: usize, n: usize) {
    let mut i = 0;
    while i < n { out[at + i] = if s.bool() { b' ' } else { b'.' }; i += 1; }
}
/// OPTS bit 0: protect_windows, bit 1: protect_hfs, bit 2: protect_ntfs
fn opts_of(o: u8) -> Options { Options { protect_windows: o & 1 != 0, protect_hfs: o & 2 != 0, protect_ntfs: o & 4 != 0 } }
fn refused<const N: usize>(name: &[u8; N], mode: Option<Mode>, opts: Options) -> bool {
    component(name[..].as_bstr(), mode, opts).is_err()
}

/// (1) `.git` in any case is refused under every option combination and mode
fn h_dotgit_case<const OPTS: u8, const SYMLINK: bool, S: Src>(s: &mut S) {
    let mut n = [0u8; 4];
    put_case(s, &mut n, 0, b".git");
    let opts = opts_of(OPTS);
    assert!(refused(&n, mode_of(SYMLINK), opts), ".git in any case is refused");
    s.reach();
}
/// (2) protect_ntfs: `.git` / `git~1` (any case) + T trailing bytes from {' ', '.'} [+ ':' + S arbitrary bytes]
fn h_ntfs_dotgit<const OPTS: u8, const SYMLINK: bool, const SHORT: bool, const T: usize, const STREAM: bool, const S_: usize, const N: usize, S: Src>(s: &mut S) {
    let mut n = [0u8; N];
    let base: &[u8] = if SHORT { b"git~1" } else { b".git" };
    put_case(s, &mut n, 0, base);
    put_space_dot(s, &mut n, base.len(), T);
    if STREAM {
        n[base.len() + T] = b':';
        let mut i = 0;
        while i < S_ { n[base.len() + T + 1 + i] = s.u8(); i += 1; }
    }
    let opts = opts_of(OPTS);
    assert!(refused(&n, mode_of(SYMLINK), opts), "NTFS .git look-alike is refused");
    s.reach();
}
/// the 16 code points HFS+ ignores, as UTF-8
fn ignorable<S: Src>(s: &mut S) -> [u8; 3] {
    let k = s.u8();
    s.assume(k < 16);
    match k {
        0..=3 => [0xE2, 0x80, 0x8C + k],            // U+200C..U+200F
        4..=8 => [0xE2, 0x80, 0xAA + (k - 4)],      // U+202A..U+202E
        9..=14 => [0xE2, 0x81, 0xAA + (k - 9)],     // U+206A..U+206F
        _ => [0xEF, 0xBB, 0xBF],                    // U+FEFF
    }
}
/// (3)/(4) protect_hfs: WORD (".git" or ".gitmodules") in any case with K (0..=2) ignorable code points inserted
/// before byte P1 and before byte P2 of the word (P == word length: at the end); positions are fixed per harness
/// (symbolic positions make the UTF-8 decoder's byte offsets symbolic, which CBMC does not get through),
/// the code points (16 choices each) and the case of every letter are symbolic
fn h_hfs<const OPTS: u8, const MODULES: bool, const K: usize, const P1: usize, const P2: usize, const N: usize, S: Src>(s: &mut S) {
    let word: &[u8] = if MODULES { b".gitmodules" } else { b".git" };
    let mut n = [0u8; N];
    let mut w = 0; let mut j = 0;
    while j <= word.len() {
        if K >= 1 && j == P1 { let ig = ignorable(s); n[w] = ig[0]; n[w + 1] = ig[1]; n[w + 2] = ig[2]; w += 3; }
        if K >= 2 && j == P2 { let ig = ignorable(s); n[w] = ig[0]; n[w + 1] = ig[1]; n[w + 2] = ig[2]; w += 3; }
        if j < word.len() {
            let c = word[j];
            n[w] = if c.is_ascii_alphabetic() && s.bool() { c ^ 0x20 } else { c };
            w += 1;
        }
        j += 1;
    }
    assert!(w == N);
    let opts = opts_of(OPTS);
    let mode = if MODULES { Some(Mode::Symlink) } else { None };
    assert!(refused(&n, mode, opts), "HFS look-alike with ignorable code points is refused");
    s.reach();
}
/// (3)/(4) protect_hfs with ONE ignorable code point that is fixed per harness (IG = index into the list of 16) at a fixed
/// position P; the case of every letter is symbolic. With the code point's bytes concrete the UTF-8 decoder is cheap for CBMC,
/// so all 16 code points can be covered (the symbolic-choice variant above does not finish).
fn ignorable_const(k: u8) -> [u8; 3] {
    match k {
        0..=3 => [0xE2, 0x80, 0x8C + k],
        4..=8 => [0xE2, 0x80, 0xAA + (k - 4)],
        9..=14 => [0xE2, 0x81, 0xAA + (k - 9)],
        _ => [0xEF, 0xBB, 0xBF],
    }
}
fn h_hfs1<const OPTS: u8, const MODULES: bool, const SYMCASE: bool, const P: usize, const IG: u8, const N: usize, S: Src>(s: &mut S) {
    let word: &[u8] = if MODULES { b".gitmodules" } else { b".git" };
    let mut n = [0u8; N];
    let mut w = 0; let mut j = 0;
    while j <= word.len() {
        if j == P { let ig = ignorable_const(IG); n[w] = ig[0]; n[w + 1] = ig[1]; n[w + 2] = ig[2]; w += 3; }
        if j < word.len() {
            let c = word[j];
            // SYMCASE = false: lower case only (everything concrete, CBMC just executes); case-insensitivity itself is
            // covered by the hfs_dotgit_k0 / dotgit_case harnesses
            n[w] = if SYMCASE && c.is_ascii_alphabetic() && s.bool() { c ^ 0x20 } else { c };
            w += 1;
        }
        j += 1;
    }
    assert!(w == N);
    let mode = if MODULES { Some(Mode::Symlink) } else { None };
    assert!(refused(&n, mode, opts_of(OPTS)), "HFS look-alike with an ignorable code point is refused");
    s.reach();
}
/// (4) protect_ntfs, symlink: `.gitmodules` (any case) + trailing {' ','.'}* [+ ':' + bytes]
fn h_ntfs_modules<const OPTS: u8, const T: usize, const STREAM: bool, const S_: usize, const N: usize, S: Src>(s: &mut S) {
    let mut n = [0u8; N];
    put_case(s, &mut n, 0, b".gitmodules");
    put_space_dot(s, &mut n, 11, T);
    if STREAM { n[11 + T] = b':'; let mut i = 0; while i < S_ { n[12 + T + i] = s.u8(); i += 1; } }
    let opts = opts_of(OPTS);
    assert!(refused(&n, Some(Mode::Symlink), opts), "symlinked .gitmodules NTFS look-alike is refused");
    s.reach();
}
/// (4) protect_ntfs, symlink: 8.3 short names `gitmod~1`..`gitmod~4` (any case) + trailing
fn h_ntfs_modules_short<const OPTS: u8, const T: usize, const N: usize, S: Src>(s: &mut S) {
    let mut n = [0u8; N];
    put_case(s, &mut n, 0, b"gitmod");
    n[6] = b'~';
    let d = s.u8(); s.assume(d >= b'1' && d <= b'4'); n[7] = d;
    put_space_dot(s, &mut n, 8, T);
    let opts = opts_of(OPTS);
    assert!(refused(&n, Some(Mode::Symlink), opts), "gitmod~N short name is refused for symlinks");
    s.reach();
}
/// (4) protect_ntfs, symlink: hashed short names per git's is_ntfs_dot_generic(): first P (<= 6) bytes of
/// "gi7eba" in any case, '~', a digit 1-9, digits up to 8 bytes in total, then trailing {' ','.'}*
fn h_ntfs_modules_hash<const OPTS: u8, const T: usize, const N: usize, S: Src>(s: &mut S) {
    let mut n = [0u8; N];
    let p = s.usize();
    s.assume(p <= 6);
    let pre = *b"gi7eba";
    let mut i = 0;
    while i < 8 {
        n[i] = if i < p { let c = pre[i]; if c.is_ascii_alphabetic() && s.bool() { c ^ 0x20 } else { c } }
               else if i == p { b'~' }
               else { let d = s.u8(); s.assume(d >= b'0' && d <= b'9' && (i != p + 1 || d != b'0')); d };
        i += 1;
    }
    put_space_dot(s, &mut n, 8, T);
    let opts = opts_of(OPTS);
    assert!(refused(&n, Some(Mode::Symlink), opts), "gi7eba~N hashed short name is refused for symlinks");
    s.reach();
}
/// (5) protect_windows + protect_ntfs: reserved device names in any case, then spaces, then end / '.' / ':' + bytes
fn h_win_device<const OPTS: u8, const WHICH: u8, const SP: usize, const END: u8, const S_: usize, const N: usize, S: Src>(s: &mut S) {
    // END: 0 = end of name, 1 = '.', 2 = ':'
    let which = WHICH;
    let mut n = [0u8; N];
    // all names padded into the same array: 3-letter names use N-?; the harness is instantiated per name length
    let (word, len): (&[u8], usize) = match which {
        0 => (b"CON", 3), 1 => (b"PRN", 3), 2 => (b"AUX", 3), 3 => (b"NUL", 3),
        4 => (b"COM", 4), 5 => (b"LPT", 4), 6 => (b"CONIN$", 6), _ => (b"CONOUT$", 7),
    };
    put_case(s, &mut n, 0, word);
    if which == 4 { let d = s.u8(); s.assume(d >= b'1' && d <= b'9'); n[3] = d; }
    if which == 5 { let d = s.u8(); s.assume(d >= b'0' && d <= b'9'); n[3] = d; }
    let mut w = len;
    let mut i = 0;
    while i < SP { n[w] = b' '; w += 1; i += 1; }
    if END == 1 { n[w] = b'.'; w += 1; }
    if END == 2 { n[w] = b':'; w += 1; }
    if END != 0 { i = 0; while i < S_ { n[w] = s.u8(); w += 1; i += 1; } }
    // the name occupies n[..w]; lengths differ per device, so validate the used prefix
    let opts = opts_of(OPTS);
    assert!(component(n[..w].as_bstr(), None, opts).is_err(), "Windows device name is refused");
    s.reach();
}
/// (6) separators and the empty component
fn h_separators<const OPTS: u8, const N: usize, S: Src>(s: &mut S) {
    let mut n: [u8; N] = s.bytes();
    let pos = s.usize();
    s.assume(pos < N);
    let win = OPTS & 1 != 0;
    n[pos] = if win && s.bool() { b'\\' } else { b'/' };
    let opts = opts_of(OPTS);
    assert!(refused(&n, None, opts), "a component containing a path separator is refused");
    assert!(component(b"".as_bstr(), None, opts).is_err(), "the empty component is refused");
    s.reach();
}

harnesses! {
    #[kani::proof] #[kani::unwind(14)] #[kani::stub(std::arch::x86_64::__cpuid_count, no_cpuid)] #[kani::stub(std::arch::x86_64::__cpuid, no_cpuid1)] dotgit_case_o0 => h_dotgit_case::<0, false, _>;
    #[kani::proof] #[kani::unwind(14)] #[kani::stub(std::arch::x86_64::__cpuid_count, no_cpuid)] #[kani::stub(std::arch::x86_64::__cpuid, no_cpuid1)] dotgit_case_o1 => h_dotgit_case::<1, false, _>;
    #[kani::proof] #[kani::unwind(14)] #[kani::stub(std::arch::x86_64::__cpuid_count, no_cpuid)] #[kani::stub(std::arch::x86_64::__cpuid, no_cpuid1)] dotgit_case_o2 => h_dotgit_case::<2, false, _>;
    #[kani::proof] #[kani::unwind(14)] #[kani::stub(std::arch::x86_64::__cpuid_count, no_cpuid)] #[kani::stub(std::arch::x86_64::__cpuid, no_cpuid1)] dotgit_case_o3 => h_dotgit_case::<3, false, _>;
    #[kani::proof] #[kani::unwind(14)] #[kani::stub(std::arch::x86_64::__cpuid_count, no_cpuid)] #[kani::stub(std::arch::x86_64::__cpuid, no_cpuid1)] dotgit_case_o4 => h_dotgit_case::<4, false, _>;
    #[kani::proof] #[kani::unwind(14)] #[kani::stub(std::arch::x86_64::__cpuid_count, no_cpuid)] #[kani::stub(std::arch::x86_64::__cpuid, no_cpuid1)] dotgit_case_o5 => h_dotgit_case::<5, false, _>;
    #[kani::proof] #[kani::unwind(14)] #[kani::stub(std::arch::x86_64::__cpuid_count, no_cpuid)] #[kani::stub(std::arch::x86_64::__cpuid, no_cpuid1)] dotgit_case_o6 => h_dotgit_case::<6, false, _>;
    #[kani::proof] #[kani::unwind(14)] #[kani::stub(std::arch::x86_64::__cpuid_count, no_cpuid)] #[kani::stub(std::arch::x86_64::__cpuid, no_cpuid1)] dotgit_case_o7 => h_dotgit_case::<7, false, _>;
    #[kani::proof] #[kani::unwind(14)] #[kani::stub(std::arch::x86_64::__cpuid_count, no_cpuid)] #[kani::stub(std::arch::x86_64::__cpuid, no_cpuid1)] dotgit_case_symlink_o7 => h_dotgit_case::<7, true, _>;
    #[kani::proof] #[kani::unwind(14)] #[kani::stub(std::arch::x86_64::__cpuid_count, no_cpuid)] #[kani::stub(std::arch::x86_64::__cpuid, no_cpuid1)] ntfs_dotgit_t0_o4 => h_ntfs_dotgit::<4, false, false, 0, false, 0, 4, _>;
    #[kani::proof] #[kani::unwind(14)] #[kani::stub(std::arch::x86_64::__cpuid_count, no_cpuid)] #[kani::stub(std::arch::x86_64::__cpuid, no_cpuid1)] ntfs_dotgit_t0_o5 => h_ntfs_dotgit::<5, false, false, 0, false, 0, 4, _>;
    #[kani::proof] #[kani::unwind(14)] #[kani::stub(std::arch::x86_64::__cpuid_count, no_cpuid)] #[kani::stub(std::arch::x86_64::__cpuid, no_cpuid1)] ntfs_dotgit_t0_o6 => h_ntfs_dotgit::<6, false, false, 0, false, 0, 4, _>;
    #[kani::proof] #[kani::unwind(14)] #[kani::stub(std::arch::x86_64::__cpuid_count, no_cpuid)] #[kani::stub(std::arch::x86_64::__cpuid, no_cpuid1)] ntfs_dotgit_t0_o7 => h_ntfs_dotgit::<7, false, false, 0, false, 0, 4, _>;
    #[kani::proof] #[kani::unwind(14)] #[kani::stub(std::arch::x86_64::__cpuid_count, no_cpuid)] #[kani::stub(std::arch::x86_64::__cpuid, no_cpuid1)] ntfs_dotgit_t1_o4 => h_ntfs_dotgit::<4, false, false, 1, false, 0, 5, _>;
    #[kani::proof] #[kani::unwind(14)] #[kani::stub(std::arch::x86_64::__cpuid_count, no_cpuid)] #[kani::stub(std::arch::x86_64::__cpuid, no_cpuid1)] ntfs_dotgit_t1_o5 => h_ntfs_dotgit::<5, false, false, 1, false, 0, 5, _>;
    #[kani::proof] #[kani::unwind(14)] #[kani::stub(std::arch::x86_64::__cpuid_count, no_cpuid)] #[kani::stub(std::arch::x86_64::__cpuid, no_cpuid1)] ntfs_dotgit_t1_o6 => h_ntfs_dotgit::<6, false, false, 1, false, 0, 5, _>;
    #[kani::proof] #[kani::unwind(14)] #[kani::stub(std::arch::x86_64::__cpuid_count, no_cpuid)] #[kani::stub(std::arch::x86_64::__cpuid, no_cpuid1)] ntfs_dotgit_t1_o7 => h_ntfs_dotgit::<7, false, false, 1, false, 0, 5, _>;
    #[kani::proof] #[kani::unwind(14)] #[kani::stub(std::arch::x86_64::__cpuid_count, no_cpuid)] #[kani::stub(std::arch::x86_64::__cpuid, no_cpuid1)] ntfs_dotgit_t2_o4 => h_ntfs_dotgit::<4, false, false, 2, false, 0, 6, _>;
    #[kani::proof] #[kani::unwind(14)] #[kani::stub(std::arch::x86_64::__cpuid_count, no_cpuid)] #[kani::stub(std::arch::x86_64::__cpuid, no_cpuid1)] ntfs_dotgit_t2_o5 => h_ntfs_dotgit::<5, false, false, 2, false, 0, 6, _>;
    #[kani::proof] #[kani::unwind(14)] #[kani::stub(std::arch::x86_64::__cpuid_count, no_cpuid)] #[kani::stub(std::arch::x86_64::__cpuid, no_cpuid1)] ntfs_dotgit_t2_o6 => h_ntfs_dotgit::<6, false, false, 2, false, 0, 6, _>;
    #[kani::proof] #[kani::unwind(14)] #[kani::stub(std::arch::x86_64::__cpuid_count, no_cpuid)] #[kani::stub(std::arch::x86_64::__cpuid, no_cpuid1)] ntfs_dotgit_t2_o7 => h_ntfs_dotgit::<7, false, false, 2, false, 0, 6, _>;
    #[kani::proof] #[kani::unwind(14)] #[kani::stub(std::arch::x86_64::__cpuid_count, no_cpuid)] #[kani::stub(std::arch::x86_64::__cpuid, no_cpuid1)] ntfs_dotgit_t3_o4 => h_ntfs_dotgit::<4, false, false, 3, false, 0, 7, _>;
    #[kani::proof] #[kani::unwind(14)] #[kani::stub(std::arch::x86_64::__cpuid_count, no_cpuid)] #[kani::stub(std::arch::x86_64::__cpuid, no_cpuid1)] ntfs_dotgit_t3_o5 => h_ntfs_dotgit::<5, false, false, 3, false, 0, 7, _>;
    #[kani::proof] #[kani::unwind(14)] #[kani::stub(std::arch::x86_64::__cpuid_count, no_cpuid)] #[kani::stub(std::arch::x86_64::__cpuid, no_cpuid1)] ntfs_dotgit_t3_o6 => h_ntfs_dotgit::<6, false, false, 3, false, 0, 7, _>;
    #[kani::proof] #[kani::unwind(14)] #[kani::stub(std::arch::x86_64::__cpuid_count, no_cpuid)] #[kani::stub(std::arch::x86_64::__cpuid, no_cpuid1)] ntfs_dotgit_t3_o7 => h_ntfs_dotgit::<7, false, false, 3, false, 0, 7, _>;
    #[kani::proof] #[kani::unwind(14)] #[kani::stub(std::arch::x86_64::__cpuid_count, no_cpuid)] #[kani::stub(std::arch::x86_64::__cpuid, no_cpuid1)] ntfs_dotgit_t5_o4 => h_ntfs_dotgit::<4, false, false, 5, false, 0, 9, _>;
    #[kani::proof] #[kani::unwind(14)] #[kani::stub(std::arch::x86_64::__cpuid_count, no_cpuid)] #[kani::stub(std::arch::x86_64::__cpuid, no_cpuid1)] ntfs_dotgit_t5_o5 => h_ntfs_dotgit::<5, false, false, 5, false, 0, 9, _>;
    #[kani::proof] #[kani::unwind(14)] #[kani::stub(std::arch::x86_64::__cpuid_count, no_cpuid)] #[kani::stub(std::arch::x86_64::__cpuid, no_cpuid1)] ntfs_dotgit_t5_o6 => h_ntfs_dotgit::<6, false, false, 5, false, 0, 9, _>;
    #[kani::proof] #[kani::unwind(14)] #[kani::stub(std::arch::x86_64::__cpuid_count, no_cpuid)] #[kani::stub(std::arch::x86_64::__cpuid, no_cpuid1)] ntfs_dotgit_t5_o7 => h_ntfs_dotgit::<7, false, false, 5, false, 0, 9, _>;
    #[kani::proof] #[kani::unwind(14)] #[kani::stub(std::arch::x86_64::__cpuid_count, no_cpuid)] #[kani::stub(std::arch::x86_64::__cpuid, no_cpuid1)] ntfs_dotgit_t0_stream1_o4 => h_ntfs_dotgit::<4, false, false, 0, true, 1, 6, _>;
    #[kani::proof] #[kani::unwind(14)] #[kani::stub(std::arch::x86_64::__cpuid_count, no_cpuid)] #[kani::stub(std::arch::x86_64::__cpuid, no_cpuid1)] ntfs_dotgit_t0_stream1_o5 => h_ntfs_dotgit::<5, false, false, 0, true, 1, 6, _>;
    #[kani::proof] #[kani::unwind(14)] #[kani::stub(std::arch::x86_64::__cpuid_count, no_cpuid)] #[kani::stub(std::arch::x86_64::__cpuid, no_cpuid1)] ntfs_dotgit_t0_stream1_o6 => h_ntfs_dotgit::<6, false, false, 0, true, 1, 6, _>;
    #[kani::proof] #[kani::unwind(14)] #[kani::stub(std::arch::x86_64::__cpuid_count, no_cpuid)] #[kani::stub(std::arch::x86_64::__cpuid, no_cpuid1)] ntfs_dotgit_t0_stream1_o7 => h_ntfs_dotgit::<7, false, false, 0, true, 1, 6, _>;
    #[kani::proof] #[kani::unwind(14)] #[kani::stub(std::arch::x86_64::__cpuid_count, no_cpuid)] #[kani::stub(std::arch::x86_64::__cpuid, no_cpuid1)] ntfs_dotgit_t1_stream2_o4 => h_ntfs_dotgit::<4, false, false, 1, true, 2, 8, _>;
    #[kani::proof] #[kani::unwind(14)] #[kani::stub(std::arch::x86_64::__cpuid_count, no_cpuid)] #[kani::stub(std::arch::x86_64::__cpuid, no_cpuid1)] ntfs_dotgit_t1_stream2_o5 => h_ntfs_dotgit::<5, false, false, 1, true, 2, 8, _>;
    #[kani::proof] #[kani::unwind(14)] #[kani::stub(std::arch::x86_64::__cpuid_count, no_cpuid)] #[kani::stub(std::arch::x86_64::__cpuid, no_cpuid1)] ntfs_dotgit_t1_stream2_o6 => h_ntfs_dotgit::<6, false, false, 1, true, 2, 8, _>;
    #[kani::proof] #[kani::unwind(14)] #[kani::stub(std::arch::x86_64::__cpuid_count, no_cpuid)] #[kani::stub(std::arch::x86_64::__cpuid, no_cpuid1)] ntfs_dotgit_t1_stream2_o7 => h_ntfs_dotgit::<7, false, false, 1, true, 2, 8, _>;
    #[kani::proof] #[kani::unwind(14)] #[kani::stub(std::arch::x86_64::__cpuid_count, no_cpuid)] #[kani::stub(std::arch::x86_64::__cpuid, no_cpuid1)] ntfs_dotgit_short_t0_o4 => h_ntfs_dotgit::<4, false, true, 0, false, 0, 5, _>;
    #[kani::proof] #[kani::unwind(14)] #[kani::stub(std::arch::x86_64::__cpuid_count, no_cpuid)] #[kani::stub(std::arch::x86_64::__cpuid, no_cpuid1)] ntfs_dotgit_short_t0_o5 => h_ntfs_dotgit::<5, false, true, 0, false, 0, 5, _>;
    #[kani::proof] #[kani::unwind(14)] #[kani::stub(std::arch::x86_64::__cpuid_count, no_cpuid)] #[kani::stub(std::arch::x86_64::__cpuid, no_cpuid1)] ntfs_dotgit_short_t0_o6 => h_ntfs_dotgit::<6, false, true, 0, false, 0, 5, _>;
    #[kani::proof] #[kani::unwind(14)] #[kani::stub(std::arch::x86_64::__cpuid_count, no_cpuid)] #[kani::stub(std::arch::x86_64::__cpuid, no_cpuid1)] ntfs_dotgit_short_t0_o7 => h_ntfs_dotgit::<7, false, true, 0, false, 0, 5, _>;
    #[kani::proof] #[kani::unwind(14)] #[kani::stub(std::arch::x86_64::__cpuid_count, no_cpuid)] #[kani::stub(std::arch::x86_64::__cpuid, no_cpuid1)] ntfs_dotgit_short_t2_o4 => h_ntfs_dotgit::<4, false, true, 2, false, 0, 7, _>;
    #[kani::proof] #[kani::unwind(14)] #[kani::stub(std::arch::x86_64::__cpuid_count, no_cpuid)] #[kani::stub(std::arch::x86_64::__cpuid, no_cpuid1)] ntfs_dotgit_short_t2_o5 => h_ntfs_dotgit::<5, false, true, 2, false, 0, 7, _>;
    #[kani::proof] #[kani::unwind(14)] #[kani::stub(std::arch::x86_64::__cpuid_count, no_cpuid)] #[kani::stub(std::arch::x86_64::__cpuid, no_cpuid1)] ntfs_dotgit_short_t2_o6 => h_ntfs_dotgit::<6, false, true, 2, false, 0, 7, _>;
    #[kani::proof] #[kani::unwind(14)] #[kani::stub(std::arch::x86_64::__cpuid_count, no_cpuid)] #[kani::stub(std::arch::x86_64::__cpuid, no_cpuid1)] ntfs_dotgit_short_t2_o7 => h_ntfs_dotgit::<7, false, true, 2, false, 0, 7, _>;
    #[kani::proof] #[kani::unwind(14)] #[kani::stub(std::arch::x86_64::__cpuid_count, no_cpuid)] #[kani::stub(std::arch::x86_64::__cpuid, no_cpuid1)] ntfs_dotgit_short_t1_stream1_o4 => h_ntfs_dotgit::<4, false, true, 1, true, 1, 8, _>;
    #[kani::proof] #[kani::unwind(14)] #[kani::stub(std::arch::x86_64::__cpuid_count, no_cpuid)] #[kani::stub(std::arch::x86_64::__cpuid, no_cpuid1)] ntfs_dotgit_short_t1_stream1_o5 => h_ntfs_dotgit::<5, false, true, 1, true, 1, 8, _>;
    #[kani::proof] #[kani::unwind(14)] #[kani::stub(std::arch::x86_64::__cpuid_count, no_cpuid)] #[kani::stub(std::arch::x86_64::__cpuid, no_cpuid1)] ntfs_dotgit_short_t1_stream1_o6 => h_ntfs_dotgit::<6, false, true, 1, true, 1, 8, _>;
    #[kani::proof] #[kani::unwind(14)] #[kani::stub(std::arch::x86_64::__cpuid_count, no_cpuid)] #[kani::stub(std::arch::x86_64::__cpuid, no_cpuid1)] ntfs_dotgit_short_t1_stream1_o7 => h_ntfs_dotgit::<7, false, true, 1, true, 1, 8, _>;
    #[kani::proof] #[kani::unwind(14)] #[kani::stub(std::arch::x86_64::__cpuid_count, no_cpuid)] #[kani::stub(std::arch::x86_64::__cpuid, no_cpuid1)] ntfs_dotgit_t1_symlink_o4 => h_ntfs_dotgit::<4, true, false, 1, false, 0, 5, _>;
    #[kani::proof] #[kani::unwind(18)] #[kani::stub(std::arch::x86_64::__cpuid_count, no_cpuid)] #[kani::stub(std::arch::x86_64::__cpuid, no_cpuid1)] hfs_dotgit_k0_o2 => h_hfs::<2, false, 0, 0, 0, 4, _>;
    #[kani::proof] #[kani::unwind(20)] #[kani::stub(std::arch::x86_64::__cpuid_count, no_cpuid)] #[kani::stub(std::arch::x86_64::__cpuid, no_cpuid1)] hfs_dotgit_k1_p0_o2 => h_hfs::<2, false, 1, 0, 0, 7, _>;
    #[kani::proof] #[kani::unwind(20)] #[kani::stub(std::arch::x86_64::__cpuid_count, no_cpuid)] #[kani::stub(std::arch::x86_64::__cpuid, no_cpuid1)] hfs_dotgit_k1_p1_o2 => h_hfs::<2, false, 1, 1, 0, 7, _>;
    #[kani::proof] #[kani::unwind(20)] #[kani::stub(std::arch::x86_64::__cpuid_count, no_cpuid)] #[kani::stub(std::arch::x86_64::__cpuid, no_cpuid1)] hfs_dotgit_k1_p2_o2 => h_hfs::<2, false, 1, 2, 0, 7, _>;
    #[kani::proof] #[kani::unwind(20)] #[kani::stub(std::arch::x86_64::__cpuid_count, no_cpuid)] #[kani::stub(std::arch::x86_64::__cpuid, no_cpuid1)] hfs_dotgit_k1_p3_o2 => h_hfs::<2, false, 1, 3, 0, 7, _>;
    #[kani::proof] #[kani::unwind(20)] #[kani::stub(std::arch::x86_64::__cpuid_count, no_cpuid)] #[kani::stub(std::arch::x86_64::__cpuid, no_cpuid1)] hfs_dotgit_k1_p4_o2 => h_hfs::<2, false, 1, 4, 0, 7, _>;
    #[kani::proof] #[kani::unwind(18)] #[kani::stub(std::arch::x86_64::__cpuid_count, no_cpuid)] #[kani::stub(std::arch::x86_64::__cpuid, no_cpuid1)] hfs_dotgit_k0_o3 => h_hfs::<3, false, 0, 0, 0, 4, _>;
    #[kani::proof] #[kani::unwind(20)] #[kani::stub(std::arch::x86_64::__cpuid_count, no_cpuid)] #[kani::stub(std::arch::x86_64::__cpuid, no_cpuid1)] hfs_dotgit_k1_p0_o3 => h_hfs::<3, false, 1, 0, 0, 7, _>;
    #[kani::proof] #[kani::unwind(20)] #[kani::stub(std::arch::x86_64::__cpuid_count, no_cpuid)] #[kani::stub(std::arch::x86_64::__cpuid, no_cpuid1)] hfs_dotgit_k1_p1_o3 => h_hfs::<3, false, 1, 1, 0, 7, _>;
    #[kani::proof] #[kani::unwind(20)] #[kani::stub(std::arch::x86_64::__cpuid_count, no_cpuid)] #[kani::stub(std::arch::x86_64::__cpuid, no_cpuid1)] hfs_dotgit_k1_p2_o3 => h_hfs::<3, false, 1, 2, 0, 7, _>;
    #[kani::proof] #[kani::unwind(20)] #[kani::stub(std::arch::x86_64::__cpuid_count, no_cpuid)] #[kani::stub(std::arch::x86_64::__cpuid, no_cpuid1)] hfs_dotgit_k1_p3_o3 => h_hfs::<3, false, 1, 3, 0, 7, _>;
    #[kani::proof] #[kani::unwind(20)] #[kani::stub(std::arch::x86_64::__cpuid_count, no_cpuid)] #[kani::stub(std::arch::x86_64::__cpuid, no_cpuid1)] hfs_dotgit_k1_p4_o3 => h_hfs::<3, false, 1, 4, 0, 7, _>;
    #[kani::proof] #[kani::unwind(18)] #[kani::stub(std::arch::x86_64::__cpuid_count, no_cpuid)] #[kani::stub(std::arch::x86_64::__cpuid, no_cpuid1)] hfs_dotgit_k0_o6 => h_hfs::<6, false, 0, 0, 0, 4, _>;
    #[kani::proof] #[kani::unwind(20)] #[kani::stub(std::arch::x86_64::__cpuid_count, no_cpuid)] #[kani::stub(std::arch::x86_64::__cpuid, no_cpuid1)] hfs_dotgit_k1_p0_o6 => h_hfs::<6, false, 1, 0, 0, 7, _>;
    #[kani::proof] #[kani::unwind(20)] #[kani::stub(std::arch::x86_64::__cpuid_count, no_cpuid)] #[kani::stub(std::arch::x86_64::__cpuid, no_cpuid1)] hfs_dotgit_k1_p1_o6 => h_hfs::<6, false, 1, 1, 0, 7, _>;
    #[kani::proof] #[kani::unwind(20)] #[kani::stub(std::arch::x86_64::__cpuid_count, no_cpuid)] #[kani::stub(std::arch::x86_64::__cpuid, no_cpuid1)] hfs_dotgit_k1_p2_o6 => h_hfs::<6, false, 1, 2, 0, 7, _>;
    #[kani::proof] #[kani::unwind(20)] #[kani::stub(std::arch::x86_64::__cpuid_count, no_cpuid)] #[kani::stub(std::arch::x86_64::__cpuid, no_cpuid1)] hfs_dotgit_k1_p3_o6 => h_hfs::<6, false, 1, 3, 0, 7, _>;
    #[kani::proof] #[kani::unwind(20)] #[kani::stub(std::arch::x86_64::__cpuid_count, no_cpuid)] #[kani::stub(std::arch::x86_64::__cpuid, no_cpuid1)] hfs_dotgit_k1_p4_o6 => h_hfs::<6, false, 1, 4, 0, 7, _>;
    #[kani::proof] #[kani::unwind(18)] #[kani::stub(std::arch::x86_64::__cpuid_count, no_cpuid)] #[kani::stub(std::arch::x86_64::__cpuid, no_cpuid1)] hfs_dotgit_k0_o7 => h_hfs::<7, false, 0, 0, 0, 4, _>;
    #[kani::proof] #[kani::unwind(20)] #[kani::stub(std::arch::x86_64::__cpuid_count, no_cpuid)] #[kani::stub(std::arch::x86_64::__cpuid, no_cpuid1)] hfs_dotgit_k1_p0_o7 => h_hfs::<7, false, 1, 0, 0, 7, _>;
    #[kani::proof] #[kani::unwind(20)] #[kani::stub(std::arch::x86_64::__cpuid_count, no_cpuid)] #[kani::stub(std::arch::x86_64::__cpuid, no_cpuid1)] hfs_dotgit_k1_p1_o7 => h_hfs::<7, false, 1, 1, 0, 7, _>;
    #[kani::proof] #[kani::unwind(20)] #[kani::stub(std::arch::x86_64::__cpuid_count, no_cpuid)] #[kani::stub(std::arch::x86_64::__cpuid, no_cpuid1)] hfs_dotgit_k1_p2_o7 => h_hfs::<7, false, 1, 2, 0, 7, _>;
    #[kani::proof] #[kani::unwind(20)] #[kani::stub(std::arch::x86_64::__cpuid_count, no_cpuid)] #[kani::stub(std::arch::x86_64::__cpuid, no_cpuid1)] hfs_dotgit_k1_p3_o7 => h_hfs::<7, false, 1, 3, 0, 7, _>;
    #[kani::proof] #[kani::unwind(20)] #[kani::stub(std::arch::x86_64::__cpuid_count, no_cpuid)] #[kani::stub(std::arch::x86_64::__cpuid, no_cpuid1)] hfs_dotgit_k1_p4_o7 => h_hfs::<7, false, 1, 4, 0, 7, _>;
    #[kani::proof] #[kani::unwind(24)] #[kani::stub(std::arch::x86_64::__cpuid_count, no_cpuid)] #[kani::stub(std::arch::x86_64::__cpuid, no_cpuid1)] hfs_dotgit_k2_p0_0_o2 => h_hfs::<2, false, 2, 0, 0, 10, _>;
    #[kani::proof] #[kani::unwind(24)] #[kani::stub(std::arch::x86_64::__cpuid_count, no_cpuid)] #[kani::stub(std::arch::x86_64::__cpuid, no_cpuid1)] hfs_dotgit_k2_p0_1_o2 => h_hfs::<2, false, 2, 0, 1, 10, _>;
    #[kani::proof] #[kani::unwind(24)] #[kani::stub(std::arch::x86_64::__cpuid_count, no_cpuid)] #[kani::stub(std::arch::x86_64::__cpuid, no_cpuid1)] hfs_dotgit_k2_p0_2_o2 => h_hfs::<2, false, 2, 0, 2, 10, _>;
    #[kani::proof] #[kani::unwind(24)] #[kani::stub(std::arch::x86_64::__cpuid_count, no_cpuid)] #[kani::stub(std::arch::x86_64::__cpuid, no_cpuid1)] hfs_dotgit_k2_p0_3_o2 => h_hfs::<2, false, 2, 0, 3, 10, _>;
    #[kani::proof] #[kani::unwind(24)] #[kani::stub(std::arch::x86_64::__cpuid_count, no_cpuid)] #[kani::stub(std::arch::x86_64::__cpuid, no_cpuid1)] hfs_dotgit_k2_p0_4_o2 => h_hfs::<2, false, 2, 0, 4, 10, _>;
    #[kani::proof] #[kani::unwind(24)] #[kani::stub(std::arch::x86_64::__cpuid_count, no_cpuid)] #[kani::stub(std::arch::x86_64::__cpuid, no_cpuid1)] hfs_dotgit_k2_p1_1_o2 => h_hfs::<2, false, 2, 1, 1, 10, _>;
    #[kani::proof] #[kani::unwind(24)] #[kani::stub(std::arch::x86_64::__cpuid_count, no_cpuid)] #[kani::stub(std::arch::x86_64::__cpuid, no_cpuid1)] hfs_dotgit_k2_p1_2_o2 => h_hfs::<2, false, 2, 1, 2, 10, _>;
    #[kani::proof] #[kani::unwind(24)] #[kani::stub(std::arch::x86_64::__cpuid_count, no_cpuid)] #[kani::stub(std::arch::x86_64::__cpuid, no_cpuid1)] hfs_dotgit_k2_p1_3_o2 => h_hfs::<2, false, 2, 1, 3, 10, _>;
    #[kani::proof] #[kani::unwind(24)] #[kani::stub(std::arch::x86_64::__cpuid_count, no_cpuid)] #[kani::stub(std::arch::x86_64::__cpuid, no_cpuid1)] hfs_dotgit_k2_p1_4_o2 => h_hfs::<2, false, 2, 1, 4, 10, _>;
    #[kani::proof] #[kani::unwind(24)] #[kani::stub(std::arch::x86_64::__cpuid_count, no_cpuid)] #[kani::stub(std::arch::x86_64::__cpuid, no_cpuid1)] hfs_dotgit_k2_p2_2_o2 => h_hfs::<2, false, 2, 2, 2, 10, _>;
    #[kani::proof] #[kani::unwind(24)] #[kani::stub(std::arch::x86_64::__cpuid_count, no_cpuid)] #[kani::stub(std::arch::x86_64::__cpuid, no_cpuid1)] hfs_dotgit_k2_p2_3_o2 => h_hfs::<2, false, 2, 2, 3, 10, _>;
    #[kani::proof] #[kani::unwind(24)] #[kani::stub(std::arch::x86_64::__cpuid_count, no_cpuid)] #[kani::stub(std::arch::x86_64::__cpuid, no_cpuid1)] hfs_dotgit_k2_p2_4_o2 => h_hfs::<2, false, 2, 2, 4, 10, _>;
    #[kani::proof] #[kani::unwind(24)] #[kani::stub(std::arch::x86_64::__cpuid_count, no_cpuid)] #[kani::stub(std::arch::x86_64::__cpuid, no_cpuid1)] hfs_dotgit_k2_p3_3_o2 => h_hfs::<2, false, 2, 3, 3, 10, _>;
    #[kani::proof] #[kani::unwind(24)] #[kani::stub(std::arch::x86_64::__cpuid_count, no_cpuid)] #[kani::stub(std::arch::x86_64::__cpuid, no_cpuid1)] hfs_dotgit_k2_p3_4_o2 => h_hfs::<2, false, 2, 3, 4, 10, _>;
    #[kani::proof] #[kani::unwind(24)] #[kani::stub(std::arch::x86_64::__cpuid_count, no_cpuid)] #[kani::stub(std::arch::x86_64::__cpuid, no_cpuid1)] hfs_dotgit_k2_p4_4_o2 => h_hfs::<2, false, 2, 4, 4, 10, _>;
    #[kani::proof] #[kani::unwind(26)] #[kani::stub(std::arch::x86_64::__cpuid_count, no_cpuid)] #[kani::stub(std::arch::x86_64::__cpuid, no_cpuid1)] hfs_modules_k0_o2 => h_hfs::<2, true, 0, 0, 0, 11, _>;
    #[kani::proof] #[kani::unwind(26)] #[kani::stub(std::arch::x86_64::__cpuid_count, no_cpuid)] #[kani::stub(std::arch::x86_64::__cpuid, no_cpuid1)] hfs_modules_k0_o7 => h_hfs::<7, true, 0, 0, 0, 11, _>;
    #[kani::proof] #[kani::unwind(30)] #[kani::stub(std::arch::x86_64::__cpuid_count, no_cpuid)] #[kani::stub(std::arch::x86_64::__cpuid, no_cpuid1)] hfs_modules_k1_p0_o2 => h_hfs::<2, true, 1, 0, 0, 14, _>;
    #[kani::proof] #[kani::unwind(30)] #[kani::stub(std::arch::x86_64::__cpuid_count, no_cpuid)] #[kani::stub(std::arch::x86_64::__cpuid, no_cpuid1)] hfs_modules_k1_p1_o2 => h_hfs::<2, true, 1, 1, 0, 14, _>;
    #[kani::proof] #[kani::unwind(30)] #[kani::stub(std::arch::x86_64::__cpuid_count, no_cpuid)] #[kani::stub(std::arch::x86_64::__cpuid, no_cpuid1)] hfs_modules_k1_p2_o2 => h_hfs::<2, true, 1, 2, 0, 14, _>;
    #[kani::proof] #[kani::unwind(30)] #[kani::stub(std::arch::x86_64::__cpuid_count, no_cpuid)] #[kani::stub(std::arch::x86_64::__cpuid, no_cpuid1)] hfs_modules_k1_p3_o2 => h_hfs::<2, true, 1, 3, 0, 14, _>;
    #[kani::proof] #[kani::unwind(30)] #[kani::stub(std::arch::x86_64::__cpuid_count, no_cpuid)] #[kani::stub(std::arch::x86_64::__cpuid, no_cpuid1)] hfs_modules_k1_p4_o2 => h_hfs::<2, true, 1, 4, 0, 14, _>;
    #[kani::proof] #[kani::unwind(30)] #[kani::stub(std::arch::x86_64::__cpuid_count, no_cpuid)] #[kani::stub(std::arch::x86_64::__cpuid, no_cpuid1)] hfs_modules_k1_p5_o2 => h_hfs::<2, true, 1, 5, 0, 14, _>;
    #[kani::proof] #[kani::unwind(30)] #[kani::stub(std::arch::x86_64::__cpuid_count, no_cpuid)] #[kani::stub(std::arch::x86_64::__cpuid, no_cpuid1)] hfs_modules_k1_p6_o2 => h_hfs::<2, true, 1, 6, 0, 14, _>;
    #[kani::proof] #[kani::unwind(30)] #[kani::stub(std::arch::x86_64::__cpuid_count, no_cpuid)] #[kani::stub(std::arch::x86_64::__cpuid, no_cpuid1)] hfs_modules_k1_p7_o2 => h_hfs::<2, true, 1, 7, 0, 14, _>;
    #[kani::proof] #[kani::unwind(30)] #[kani::stub(std::arch::x86_64::__cpuid_count, no_cpuid)] #[kani::stub(std::arch::x86_64::__cpuid, no_cpuid1)] hfs_modules_k1_p8_o2 => h_hfs::<2, true, 1, 8, 0, 14, _>;
    #[kani::proof] #[kani::unwind(30)] #[kani::stub(std::arch::x86_64::__cpuid_count, no_cpuid)] #[kani::stub(std::arch::x86_64::__cpuid, no_cpuid1)] hfs_modules_k1_p9_o2 => h_hfs::<2, true, 1, 9, 0, 14, _>;
    #[kani::proof] #[kani::unwind(30)] #[kani::stub(std::arch::x86_64::__cpuid_count, no_cpuid)] #[kani::stub(std::arch::x86_64::__cpuid, no_cpuid1)] hfs_modules_k1_p10_o2 => h_hfs::<2, true, 1, 10, 0, 14, _>;
    #[kani::proof] #[kani::unwind(30)] #[kani::stub(std::arch::x86_64::__cpuid_count, no_cpuid)] #[kani::stub(std::arch::x86_64::__cpuid, no_cpuid1)] hfs_modules_k1_p11_o2 => h_hfs::<2, true, 1, 11, 0, 14, _>;
    #[kani::proof] #[kani::unwind(20)] #[kani::stub(std::arch::x86_64::__cpuid_count, no_cpuid)] #[kani::stub(std::arch::x86_64::__cpuid, no_cpuid1)] hfs1_dotgit_lc_ig0_p0_o2 => h_hfs1::<2, false, false, 0, 0, 7, _>;
    #[kani::proof] #[kani::unwind(20)] #[kani::stub(std::arch::x86_64::__cpuid_count, no_cpuid)] #[kani::stub(std::arch::x86_64::__cpuid, no_cpuid1)] hfs1_dotgit_lc_ig0_p1_o2 => h_hfs1::<2, false, false, 1, 0, 7, _>;
    #[kani::proof] #[kani::unwind(20)] #[kani::stub(std::arch::x86_64::__cpuid_count, no_cpuid)] #[kani::stub(std::arch::x86_64::__cpuid, no_cpuid1)] hfs1_dotgit_lc_ig0_p2_o2 => h_hfs1::<2, false, false, 2, 0, 7, _>;
    #[kani::proof] #[kani::unwind(20)] #[kani::stub(std::arch::x86_64::__cpuid_count, no_cpuid)] #[kani::stub(std::arch::x86_64::__cpuid, no_cpuid1)] hfs1_dotgit_lc_ig0_p3_o2 => h_hfs1::<2, false, false, 3, 0, 7, _>;
    #[kani::proof] #[kani::unwind(20)] #[kani::stub(std::arch::x86_64::__cpuid_count, no_cpuid)] #[kani::stub(std::arch::x86_64::__cpuid, no_cpuid1)] hfs1_dotgit_lc_ig0_p4_o2 => h_hfs1::<2, false, false, 4, 0, 7, _>;
    #[kani::proof] #[kani::unwind(20)] #[kani::stub(std::arch::x86_64::__cpuid_count, no_cpuid)] #[kani::stub(std::arch::x86_64::__cpuid, no_cpuid1)] hfs1_dotgit_ig0_p2_o2 => h_hfs1::<2, false, true, 2, 0, 7, _>;
    #[kani::proof] #[kani::unwind(30)] #[kani::stub(std::arch::x86_64::__cpuid_count, no_cpuid)] #[kani::stub(std::arch::x86_64::__cpuid, no_cpuid1)] hfs1_modules_lc_ig0_p5_o2 => h_hfs1::<2, true, false, 5, 0, 14, _>;
    #[kani::proof] #[kani::unwind(20)] #[kani::stub(std::arch::x86_64::__cpuid_count, no_cpuid)] #[kani::stub(std::arch::x86_64::__cpuid, no_cpuid1)] hfs1_dotgit_lc_ig1_p0_o2 => h_hfs1::<2, false, false, 0, 1, 7, _>;
    #[kani::proof] #[kani::unwind(20)] #[kani::stub(std::arch::x86_64::__cpuid_count, no_cpuid)] #[kani::stub(std::arch::x86_64::__cpuid, no_cpuid1)] hfs1_dotgit_lc_ig1_p1_o2 => h_hfs1::<2, false, false, 1, 1, 7, _>;
    #[kani::proof] #[kani::unwind(20)] #[kani::stub(std::arch::x86_64::__cpuid_count, no_cpuid)] #[kani::stub(std::arch::x86_64::__cpuid, no_cpuid1)] hfs1_dotgit_lc_ig1_p2_o2 => h_hfs1::<2, false, false, 2, 1, 7, _>;
    #[kani::proof] #[kani::unwind(20)] #[kani::stub(std::arch::x86_64::__cpuid_count, no_cpuid)] #[kani::stub(std::arch::x86_64::__cpuid, no_cpuid1)] hfs1_dotgit_lc_ig1_p3_o2 => h_hfs1::<2, false, false, 3, 1, 7, _>;
    #[kani::proof] #[kani::unwind(20)] #[kani::stub(std::arch::x86_64::__cpuid_count, no_cpuid)] #[kani::stub(std::arch::x86_64::__cpuid, no_cpuid1)] hfs1_dotgit_lc_ig1_p4_o2 => h_hfs1::<2, false, false, 4, 1, 7, _>;
    #[kani::proof] #[kani::unwind(20)] #[kani::stub(std::arch::x86_64::__cpuid_count, no_cpuid)] #[kani::stub(std::arch::x86_64::__cpuid, no_cpuid1)] hfs1_dotgit_ig1_p2_o2 => h_hfs1::<2, false, true, 2, 1, 7, _>;
    #[kani::proof] #[kani::unwind(30)] #[kani::stub(std::arch::x86_64::__cpuid_count, no_cpuid)] #[kani::stub(std::arch::x86_64::__cpuid, no_cpuid1)] hfs1_modules_lc_ig1_p5_o2 => h_hfs1::<2, true, false, 5, 1, 14, _>;
    #[kani::proof] #[kani::unwind(20)] #[kani::stub(std::arch::x86_64::__cpuid_count, no_cpuid)] #[kani::stub(std::arch::x86_64::__cpuid, no_cpuid1)] hfs1_dotgit_lc_ig2_p0_o2 => h_hfs1::<2, false, false, 0, 2, 7, _>;
    #[kani::proof] #[kani::unwind(20)] #[kani::stub(std::arch::x86_64::__cpuid_count, no_cpuid)] #[kani::stub(std::arch::x86_64::__cpuid, no_cpuid1)] hfs1_dotgit_lc_ig2_p1_o2 => h_hfs1::<2, false, false, 1, 2, 7, _>;
    #[kani::proof] #[kani::unwind(20)] #[kani::stub(std::arch::x86_64::__cpuid_count, no_cpuid)] #[kani::stub(std::arch::x86_64::__cpuid, no_cpuid1)] hfs1_dotgit_lc_ig2_p2_o2 => h_hfs1::<2, false, false, 2, 2, 7, _>;
    #[kani::proof] #[kani::unwind(20)] #[kani::stub(std::arch::x86_64::__cpuid_count, no_cpuid)] #[kani::stub(std::arch::x86_64::__cpuid, no_cpuid1)] hfs1_dotgit_lc_ig2_p3_o2 => h_hfs1::<2, false, false, 3, 2, 7, _>;
    #[kani::proof] #[kani::unwind(20)] #[kani::stub(std::arch::x86_64::__cpuid_count, no_cpuid)] #[kani::stub(std::arch::x86_64::__cpuid, no_cpuid1)] hfs1_dotgit_lc_ig2_p4_o2 => h_hfs1::<2, false, false, 4, 2, 7, _>;
    #[kani::proof] #[kani::unwind(20)] #[kani::stub(std::arch::x86_64::__cpuid_count, no_cpuid)] #[kani::stub(std::arch::x86_64::__cpuid, no_cpuid1)] hfs1_dotgit_ig2_p2_o2 => h_hfs1::<2, false, true, 2, 2, 7, _>;
    #[kani::proof] #[kani::unwind(30)] #[kani::stub(std::arch::x86_64::__cpuid_count, no_cpuid)] #[kani::stub(std::arch::x86_64::__cpuid, no_cpuid1)] hfs1_modules_lc_ig2_p5_o2 => h_hfs1::<2, true, false, 5, 2, 14, _>;
    #[kani::proof] #[kani::unwind(20)] #[kani::stub(std::arch::x86_64::__cpuid_count, no_cpuid)] #[kani::stub(std::arch::x86_64::__cpuid, no_cpuid1)] hfs1_dotgit_lc_ig3_p0_o2 => h_hfs1::<2, false, false, 0, 3, 7, _>;
    #[kani::proof] #[kani::unwind(20)] #[kani::stub(std::arch::x86_64::__cpuid_count, no_cpuid)] #[kani::stub(std::arch::x86_64::__cpuid, no_cpuid1)] hfs1_dotgit_lc_ig3_p1_o2 => h_hfs1::<2, false, false, 1, 3, 7, _>;
    #[kani::proof] #[kani::unwind(20)] #[kani::stub(std::arch::x86_64::__cpuid_count, no_cpuid)] #[kani::stub(std::arch::x86_64::__cpuid, no_cpuid1)] hfs1_dotgit_lc_ig3_p2_o2 => h_hfs1::<2, false, false, 2, 3, 7, _>;
    #[kani::proof] #[kani::unwind(20)] #[kani::stub(std::arch::x86_64::__cpuid_count, no_cpuid)] #[kani::stub(std::arch::x86_64::__cpuid, no_cpuid1)] hfs1_dotgit_lc_ig3_p3_o2 => h_hfs1::<2, false, false, 3, 3, 7, _>;
    #[kani::proof] #[kani::unwind(20)] #[kani::stub(std::arch::x86_64::__cpuid_count, no_cpuid)] #[kani::stub(std::arch::x86_64::__cpuid, no_cpuid1)] hfs1_dotgit_lc_ig3_p4_o2 => h_hfs1::<2, false, false, 4, 3, 7, _>;
    #[kani::proof] #[kani::unwind(20)] #[kani::stub(std::arch::x86_64::__cpuid_count, no_cpuid)] #[kani::stub(std::arch::x86_64::__cpuid, no_cpuid1)] hfs1_dotgit_ig3_p2_o2 => h_hfs1::<2, false, true, 2, 3, 7, _>;
    #[kani::proof] #[kani::unwind(30)] #[kani::stub(std::arch::x86_64::__cpuid_count, no_cpuid)] #[kani::stub(std::arch::x86_64::__cpuid, no_cpuid1)] hfs1_modules_lc_ig3_p5_o2 => h_hfs1::<2, true, false, 5, 3, 14, _>;
    #[kani::proof] #[kani::unwind(20)] #[kani::stub(std::arch::x86_64::__cpuid_count, no_cpuid)] #[kani::stub(std::arch::x86_64::__cpuid, no_cpuid1)] hfs1_dotgit_lc_ig4_p0_o2 => h_hfs1::<2, false, false, 0, 4, 7, _>;
    #[kani::proof] #[kani::unwind(20)] #[kani::stub(std::arch::x86_64::__cpuid_count, no_cpuid)] #[kani::stub(std::arch::x86_64::__cpuid, no_cpuid1)] hfs1_dotgit_lc_ig4_p1_o2 => h_hfs1::<2, false, false, 1, 4, 7, _>;
    #[kani::proof] #[kani::unwind(20)] #[kani::stub(std::arch::x86_64::__cpuid_count, no_cpuid)] #[kani::stub(std::arch::x86_64::__cpuid, no_cpuid1)] hfs1_dotgit_lc_ig4_p2_o2 => h_hfs1::<2, false, false, 2, 4, 7, _>;
    #[kani::proof] #[kani::unwind(20)] #[kani::stub(std::arch::x86_64::__cpuid_count, no_cpuid)] #[kani::stub(std::arch::x86_64::__cpuid, no_cpuid1)] hfs1_dotgit_lc_ig4_p3_o2 => h_hfs1::<2, false, false, 3, 4, 7, _>;
    #[kani::proof] #[kani::unwind(20)] #[kani::stub(std::arch::x86_64::__cpuid_count, no_cpuid)] #[kani::stub(std::arch::x86_64::__cpuid, no_cpuid1)] hfs1_dotgit_lc_ig4_p4_o2 => h_hfs1::<2, false, false, 4, 4, 7, _>;
    #[kani::proof] #[kani::unwind(20)] #[kani::stub(std::arch::x86_64::__cpuid_count, no_cpuid)] #[kani::stub(std::arch::x86_64::__cpuid, no_cpuid1)] hfs1_dotgit_ig4_p2_o2 => h_hfs1::<2, false, true, 2, 4, 7, _>;
    #[kani::proof] #[kani::unwind(30)] #[kani::stub(std::arch::x86_64::__cpuid_count, no_cpuid)] #[kani::stub(std::arch::x86_64::__cpuid, no_cpuid1)] hfs1_modules_lc_ig4_p5_o2 => h_hfs1::<2, true, false, 5, 4, 14, _>;
    #[kani::proof] #[kani::unwind(20)] #[kani::stub(std::arch::x86_64::__cpuid_count, no_cpuid)] #[kani::stub(std::arch::x86_64::__cpuid, no_cpuid1)] hfs1_dotgit_lc_ig5_p0_o2 => h_hfs1::<2, false, false, 0, 5, 7, _>;
    #[kani::proof] #[kani::unwind(20)] #[kani::stub(std::arch::x86_64::__cpuid_count, no_cpuid)] #[kani::stub(std::arch::x86_64::__cpuid, no_cpuid1)] hfs1_dotgit_lc_ig5_p1_o2 => h_hfs1::<2, false, false, 1, 5, 7, _>;
    #[kani::proof] #[kani::unwind(20)] #[kani::stub(std::arch::x86_64::__cpuid_count, no_cpuid)] #[kani::stub(std::arch::x86_64::__cpuid, no_cpuid1)] hfs1_dotgit_lc_ig5_p2_o2 => h_hfs1::<2, false, false, 2, 5, 7, _>;
    #[kani::proof] #[kani::unwind(20)] #[kani::stub(std::arch::x86_64::__cpuid_count, no_cpuid)] #[kani::stub(std::arch::x86_64::__cpuid, no_cpuid1)] hfs1_dotgit_lc_ig5_p3_o2 => h_hfs1::<2, false, false, 3, 5, 7, _>;
    #[kani::proof] #[kani::unwind(20)] #[kani::stub(std::arch::x86_64::__cpuid_count, no_cpuid)] #[kani::stub(std::arch::x86_64::__cpuid, no_cpuid1)] hfs1_dotgit_lc_ig5_p4_o2 => h_hfs1::<2, false, false, 4, 5, 7, _>;
    #[kani::proof] #[kani::unwind(20)] #[kani::stub(std::arch::x86_64::__cpuid_count, no_cpuid)] #[kani::stub(std::arch::x86_64::__cpuid, no_cpuid1)] hfs1_dotgit_ig5_p2_o2 => h_hfs1::<2, false, true, 2, 5, 7, _>;
    #[kani::proof] #[kani::unwind(30)] #[kani::stub(std::arch::x86_64::__cpuid_count, no_cpuid)] #[kani::stub(std::arch::x86_64::__cpuid, no_cpuid1)] hfs1_modules_lc_ig5_p5_o2 => h_hfs1::<2, true, false, 5, 5, 14, _>;
    #[kani::proof] #[kani::unwind(20)] #[kani::stub(std::arch::x86_64::__cpuid_count, no_cpuid)] #[kani::stub(std::arch::x86_64::__cpuid, no_cpuid1)] hfs1_dotgit_lc_ig6_p0_o2 => h_hfs1::<2, false, false, 0, 6, 7, _>;
    #[kani::proof] #[kani::unwind(20)] #[kani::stub(std::arch::x86_64::__cpuid_count, no_cpuid)] #[kani::stub(std::arch::x86_64::__cpuid, no_cpuid1)] hfs1_dotgit_lc_ig6_p1_o2 => h_hfs1::<2, false, false, 1, 6, 7, _>;
    #[kani::proof] #[kani::unwind(20)] #[kani::stub(std::arch::x86_64::__cpuid_count, no_cpuid)] #[kani::stub(std::arch::x86_64::__cpuid, no_cpuid1)] hfs1_dotgit_lc_ig6_p2_o2 => h_hfs1::<2, false, false, 2, 6, 7, _>;
    #[kani::proof] #[kani::unwind(20)] #[kani::stub(std::arch::x86_64::__cpuid_count, no_cpuid)] #[kani::stub(std::arch::x86_64::__cpuid, no_cpuid1)] hfs1_dotgit_lc_ig6_p3_o2 => h_hfs1::<2, false, false, 3, 6, 7, _>;
    #[kani::proof] #[kani::unwind(20)] #[kani::stub(std::arch::x86_64::__cpuid_count, no_cpuid)] #[kani::stub(std::arch::x86_64::__cpuid, no_cpuid1)] hfs1_dotgit_lc_ig6_p4_o2 => h_hfs1::<2, false, false, 4, 6, 7, _>;
    #[kani::proof] #[kani::unwind(20)] #[kani::stub(std::arch::x86_64::__cpuid_count, no_cpuid)] #[kani::stub(std::arch::x86_64::__cpuid, no_cpuid1)] hfs1_dotgit_ig6_p2_o2 => h_hfs1::<2, false, true, 2, 6, 7, _>;
    #[kani::proof] #[kani::unwind(30)] #[kani::stub(std::arch::x86_64::__cpuid_count, no_cpuid)] #[kani::stub(std::arch::x86_64::__cpuid, no_cpuid1)] hfs1_modules_lc_ig6_p5_o2 => h_hfs1::<2, true, false, 5, 6, 14, _>;
    #[kani::proof] #[kani::unwind(20)] #[kani::stub(std::arch::x86_64::__cpuid_count, no_cpuid)] #[kani::stub(std::arch::x86_64::__cpuid, no_cpuid1)] hfs1_dotgit_lc_ig7_p0_o2 => h_hfs1::<2, false, false, 0, 7, 7, _>;
    #[kani::proof] #[kani::unwind(20)] #[kani::stub(std::arch::x86_64::__cpuid_count, no_cpuid)] #[kani::stub(std::arch::x86_64::__cpuid, no_cpuid1)] hfs1_dotgit_lc_ig7_p1_o2 => h_hfs1::<2, false, false, 1, 7, 7, _>;
    #[kani::proof] #[kani::unwind(20)] #[kani::stub(std::arch::x86_64::__cpuid_count, no_cpuid)] #[kani::stub(std::arch::x86_64::__cpuid, no_cpuid1)] hfs1_dotgit_lc_ig7_p2_o2 => h_hfs1::<2, false, false, 2, 7, 7, _>;
    #[kani::proof] #[kani::unwind(20)] #[kani::stub(std::arch::x86_64::__cpuid_count, no_cpuid)] #[kani::stub(std::arch::x86_64::__cpuid, no_cpuid1)] hfs1_dotgit_lc_ig7_p3_o2 => h_hfs1::<2, false, false, 3, 7, 7, _>;
    #[kani::proof] #[kani::unwind(20)] #[kani::stub(std::arch::x86_64::__cpuid_count, no_cpuid)] #[kani::stub(std::arch::x86_64::__cpuid, no_cpuid1)] hfs1_dotgit_lc_ig7_p4_o2 => h_hfs1::<2, false, false, 4, 7, 7, _>;
    #[kani::proof] #[kani::unwind(20)] #[kani::stub(std::arch::x86_64::__cpuid_count, no_cpuid)] #[kani::stub(std::arch::x86_64::__cpuid, no_cpuid1)] hfs1_dotgit_ig7_p2_o2 => h_hfs1::<2, false, true, 2, 7, 7, _>;
    #[kani::proof] #[kani::unwind(30)] #[kani::stub(std::arch::x86_64::__cpuid_count, no_cpuid)] #[kani::stub(std::arch::x86_64::__cpuid, no_cpuid1)] hfs1_modules_lc_ig7_p5_o2 => h_hfs1::<2, true, false, 5, 7, 14, _>;
    #[kani::proof] #[kani::unwind(20)] #[kani::stub(std::arch::x86_64::__cpuid_count, no_cpuid)] #[kani::stub(std::arch::x86_64::__cpuid, no_cpuid1)] hfs1_dotgit_lc_ig8_p0_o2 => h_hfs1::<2, false, false, 0, 8, 7, _>;
    #[kani::proof] #[kani::unwind(20)] #[kani::stub(std::arch::x86_64::__cpuid_count, no_cpuid)] #[kani::stub(std::arch::x86_64::__cpuid, no_cpuid1)] hfs1_dotgit_lc_ig8_p1_o2 => h_hfs1::<2, false, false, 1, 8, 7, _>;
    #[kani::proof] #[kani::unwind(20)] #[kani::stub(std::arch::x86_64::__cpuid_count, no_cpuid)] #[kani::stub(std::arch::x86_64::__cpuid, no_cpuid1)] hfs1_dotgit_lc_ig8_p2_o2 => h_hfs1::<2, false, false, 2, 8, 7, _>;
    #[kani::proof] #[kani::unwind(20)] #[kani::stub(std::arch::x86_64::__cpuid_count, no_cpuid)] #[kani::stub(std::arch::x86_64::__cpuid, no_cpuid1)] hfs1_dotgit_lc_ig8_p3_o2 => h_hfs1::<2, false, false, 3, 8, 7, _>;
    #[kani::proof] #[kani::unwind(20)] #[kani::stub(std::arch::x86_64::__cpuid_count, no_cpuid)] #[kani::stub(std::arch::x86_64::__cpuid, no_cpuid1)] hfs1_dotgit_lc_ig8_p4_o2 => h_hfs1::<2, false, false, 4, 8, 7, _>;
    #[kani::proof] #[kani::unwind(20)] #[kani::stub(std::arch::x86_64::__cpuid_count, no_cpuid)] #[kani::stub(std::arch::x86_64::__cpuid, no_cpuid1)] hfs1_dotgit_ig8_p2_o2 => h_hfs1::<2, false, true, 2, 8, 7, _>;
    #[kani::proof] #[kani::unwind(30)] #[kani::stub(std::arch::x86_64::__cpuid_count, no_cpuid)] #[kani::stub(std::arch::x86_64::__cpuid, no_cpuid1)] hfs1_modules_lc_ig8_p5_o2 => h_hfs1::<2, true, false, 5, 8, 14, _>;
    #[kani::proof] #[kani::unwind(20)] #[kani::stub(std::arch::x86_64::__cpuid_count, no_cpuid)] #[kani::stub(std::arch::x86_64::__cpuid, no_cpuid1)] hfs1_dotgit_lc_ig9_p0_o2 => h_hfs1::<2, false, false, 0, 9, 7, _>;
    #[kani::proof] #[kani::unwind(20)] #[kani::stub(std::arch::x86_64::__cpuid_count, no_cpuid)] #[kani::stub(std::arch::x86_64::__cpuid, no_cpuid1)] hfs1_dotgit_lc_ig9_p1_o2 => h_hfs1::<2, false, false, 1, 9, 7, _>;
    #[kani::proof] #[kani::unwind(20)] #[kani::stub(std::arch::x86_64::__cpuid_count, no_cpuid)] #[kani::stub(std::arch::x86_64::__cpuid, no_cpuid1)] hfs1_dotgit_lc_ig9_p2_o2 => h_hfs1::<2, false, false, 2, 9, 7, _>;
    #[kani::proof] #[kani::unwind(20)] #[kani::stub(std::arch::x86_64::__cpuid_count, no_cpuid)] #[kani::stub(std::arch::x86_64::__cpuid, no_cpuid1)] hfs1_dotgit_lc_ig9_p3_o2 => h_hfs1::<2, false, false, 3, 9, 7, _>;
    #[kani::proof] #[kani::unwind(20)] #[kani::stub(std::arch::x86_64::__cpuid_count, no_cpuid)] #[kani::stub(std::arch::x86_64::__cpuid, no_cpuid1)] hfs1_dotgit_lc_ig9_p4_o2 => h_hfs1::<2, false, false, 4, 9, 7, _>;
    #[kani::proof] #[kani::unwind(20)] #[kani::stub(std::arch::x86_64::__cpuid_count, no_cpuid)] #[kani::stub(std::arch::x86_64::__cpuid, no_cpuid1)] hfs1_dotgit_ig9_p2_o2 => h_hfs1::<2, false, true, 2, 9, 7, _>;
    #[kani::proof] #[kani::unwind(30)] #[kani::stub(std::arch::x86_64::__cpuid_count, no_cpuid)] #[kani::stub(std::arch::x86_64::__cpuid, no_cpuid1)] hfs1_modules_lc_ig9_p5_o2 => h_hfs1::<2, true, false, 5, 9, 14, _>;
    #[kani::proof] #[kani::unwind(20)] #[kani::stub(std::arch::x86_64::__cpuid_count, no_cpuid)] #[kani::stub(std::arch::x86_64::__cpuid, no_cpuid1)] hfs1_dotgit_lc_ig10_p0_o2 => h_hfs1::<2, false, false, 0, 10, 7, _>;
    #[kani::proof] #[kani::unwind(20)] #[kani::stub(std::arch::x86_64::__cpuid_count, no_cpuid)] #[kani::stub(std::arch::x86_64::__cpuid, no_cpuid1)] hfs1_dotgit_lc_ig10_p1_o2 => h_hfs1::<2, false, false, 1, 10, 7, _>;
    #[kani::proof] #[kani::unwind(20)] #[kani::stub(std::arch::x86_64::__cpuid_count, no_cpuid)] #[kani::stub(std::arch::x86_64::__cpuid, no_cpuid1)] hfs1_dotgit_lc_ig10_p2_o2 => h_hfs1::<2, false, false, 2, 10, 7, _>;
    #[kani::proof] #[kani::unwind(20)] #[kani::stub(std::arch::x86_64::__cpuid_count, no_cpuid)] #[kani::stub(std::arch::x86_64::__cpuid, no_cpuid1)] hfs1_dotgit_lc_ig10_p3_o2 => h_hfs1::<2, false, false, 3, 10, 7, _>;
    #[kani::proof] #[kani::unwind(20)] #[kani::stub(std::arch::x86_64::__cpuid_count, no_cpuid)] #[kani::stub(std::arch::x86_64::__cpuid, no_cpuid1)] hfs1_dotgit_lc_ig10_p4_o2 => h_hfs1::<2, false, false, 4, 10, 7, _>;
    #[kani::proof] #[kani::unwind(20)] #[kani::stub(std::arch::x86_64::__cpuid_count, no_cpuid)] #[kani::stub(std::arch::x86_64::__cpuid, no_cpuid1)] hfs1_dotgit_ig10_p2_o2 => h_hfs1::<2, false, true, 2, 10, 7, _>;
    #[kani::proof] #[kani::unwind(30)] #[kani::stub(std::arch::x86_64::__cpuid_count, no_cpuid)] #[kani::stub(std::arch::x86_64::__cpuid, no_cpuid1)] hfs1_modules_lc_ig10_p5_o2 => h_hfs1::<2, true, false, 5, 10, 14, _>;
    #[kani::proof] #[kani::unwind(20)] #[kani::stub(std::arch::x86_64::__cpuid_count, no_cpuid)] #[kani::stub(std::arch::x86_64::__cpuid, no_cpuid1)] hfs1_dotgit_lc_ig11_p0_o2 => h_hfs1::<2, false, false, 0, 11, 7, _>;
    #[kani::proof] #[kani::unwind(20)] #[kani::stub(std::arch::x86_64::__cpuid_count, no_cpuid)] #[kani::stub(std::arch::x86_64::__cpuid, no_cpuid1)] hfs1_dotgit_lc_ig11_p1_o2 => h_hfs1::<2, false, false, 1, 11, 7, _>;
    #[kani::proof] #[kani::unwind(20)] #[kani::stub(std::arch::x86_64::__cpuid_count, no_cpuid)] #[kani::stub(std::arch::x86_64::__cpuid, no_cpuid1)] hfs1_dotgit_lc_ig11_p2_o2 => h_hfs1::<2, false, false, 2, 11, 7, _>;
    #[kani::proof] #[kani::unwind(20)] #[kani::stub(std::arch::x86_64::__cpuid_count, no_cpuid)] #[kani::stub(std::arch::x86_64::__cpuid, no_cpuid1)] hfs1_dotgit_lc_ig11_p3_o2 => h_hfs1::<2, false, false, 3, 11, 7, _>;
    #[kani::proof] #[kani::unwind(20)] #[kani::stub(std::arch::x86_64::__cpuid_count, no_cpuid)] #[kani::stub(std::arch::x86_64::__cpuid, no_cpuid1)] hfs1_dotgit_lc_ig11_p4_o2 => h_hfs1::<2, false, false, 4, 11, 7, _>;
    #[kani::proof] #[kani::unwind(20)] #[kani::stub(std::arch::x86_64::__cpuid_count, no_cpuid)] #[kani::stub(std::arch::x86_64::__cpuid, no_cpuid1)] hfs1_dotgit_ig11_p2_o2 => h_hfs1::<2, false, true, 2, 11, 7, _>;
    #[kani::proof] #[kani::unwind(30)] #[kani::stub(std::arch::x86_64::__cpuid_count, no_cpuid)] #[kani::stub(std::arch::x86_64::__cpuid, no_cpuid1)] hfs1_modules_lc_ig11_p5_o2 => h_hfs1::<2, true, false, 5, 11, 14, _>;
    #[kani::proof] #[kani::unwind(20)] #[kani::stub(std::arch::x86_64::__cpuid_count, no_cpuid)] #[kani::stub(std::arch::x86_64::__cpuid, no_cpuid1)] hfs1_dotgit_lc_ig12_p0_o2 => h_hfs1::<2, false, false, 0, 12, 7, _>;
    #[kani::proof] #[kani::unwind(20)] #[kani::stub(std::arch::x86_64::__cpuid_count, no_cpuid)] #[kani::stub(std::arch::x86_64::__cpuid, no_cpuid1)] hfs1_dotgit_lc_ig12_p1_o2 => h_hfs1::<2, false, false, 1, 12, 7, _>;
    #[kani::proof] #[kani::unwind(20)] #[kani::stub(std::arch::x86_64::__cpuid_count, no_cpuid)] #[kani::stub(std::arch::x86_64::__cpuid, no_cpuid1)] hfs1_dotgit_lc_ig12_p2_o2 => h_hfs1::<2, false, false, 2, 12, 7, _>;
    #[kani::proof] #[kani::unwind(20)] #[kani::stub(std::arch::x86_64::__cpuid_count, no_cpuid)] #[kani::stub(std::arch::x86_64::__cpuid, no_cpuid1)] hfs1_dotgit_lc_ig12_p3_o2 => h_hfs1::<2, false, false, 3, 12, 7, _>;
    #[kani::proof] #[kani::unwind(20)] #[kani::stub(std::arch::x86_64::__cpuid_count, no_cpuid)] #[kani::stub(std::arch::x86_64::__cpuid, no_cpuid1)] hfs1_dotgit_lc_ig12_p4_o2 => h_hfs1::<2, false, false, 4, 12, 7, _>;
    #[kani::proof] #[kani::unwind(20)] #[kani::stub(std::arch::x86_64::__cpuid_count, no_cpuid)] #[kani::stub(std::arch::x86_64::__cpuid, no_cpuid1)] hfs1_dotgit_ig12_p2_o2 => h_hfs1::<2, false, true, 2, 12, 7, _>;
    #[kani::proof] #[kani::unwind(30)] #[kani::stub(std::arch::x86_64::__cpuid_count, no_cpuid)] #[kani::stub(std::arch::x86_64::__cpuid, no_cpuid1)] hfs1_modules_lc_ig12_p5_o2 => h_hfs1::<2, true, false, 5, 12, 14, _>;
    #[kani::proof] #[kani::unwind(20)] #[kani::stub(std::arch::x86_64::__cpuid_count, no_cpuid)] #[kani::stub(std::arch::x86_64::__cpuid, no_cpuid1)] hfs1_dotgit_lc_ig13_p0_o2 => h_hfs1::<2, false, false, 0, 13, 7, _>;
    #[kani::proof] #[kani::unwind(20)] #[kani::stub(std::arch::x86_64::__cpuid_count, no_cpuid)] #[kani::stub(std::arch::x86_64::__cpuid, no_cpuid1)] hfs1_dotgit_lc_ig13_p1_o2 => h_hfs1::<2, false, false, 1, 13, 7, _>;
    #[kani::proof] #[kani::unwind(20)] #[kani::stub(std::arch::x86_64::__cpuid_count, no_cpuid)] #[kani::stub(std::arch::x86_64::__cpuid, no_cpuid1)] hfs1_dotgit_lc_ig13_p2_o2 => h_hfs1::<2, false, false, 2, 13, 7, _>;
    #[kani::proof] #[kani::unwind(20)] #[kani::stub(std::arch::x86_64::__cpuid_count, no_cpuid)] #[kani::stub(std::arch::x86_64::__cpuid, no_cpuid1)] hfs1_dotgit_lc_ig13_p3_o2 => h_hfs1::<2, false, false, 3, 13, 7, _>;
    #[kani::proof] #[kani::unwind(20)] #[kani::stub(std::arch::x86_64::__cpuid_count, no_cpuid)] #[kani::stub(std::arch::x86_64::__cpuid, no_cpuid1)] hfs1_dotgit_lc_ig13_p4_o2 => h_hfs1::<2, false, false, 4, 13, 7, _>;
    #[kani::proof] #[kani::unwind(20)] #[kani::stub(std::arch::x86_64::__cpuid_count, no_cpuid)] #[kani::stub(std::arch::x86_64::__cpuid, no_cpuid1)] hfs1_dotgit_ig13_p2_o2 => h_hfs1::<2, false, true, 2, 13, 7, _>;
    #[kani::proof] #[kani::unwind(30)] #[kani::stub(std::arch::x86_64::__cpuid_count, no_cpuid)] #[kani::stub(std::arch::x86_64::__cpuid, no_cpuid1)] hfs1_modules_lc_ig13_p5_o2 => h_hfs1::<2, true, false, 5, 13, 14, _>;
    #[kani::proof] #[kani::unwind(20)] #[kani::stub(std::arch::x86_64::__cpuid_count, no_cpuid)] #[kani::stub(std::arch::x86_64::__cpuid, no_cpuid1)] hfs1_dotgit_lc_ig14_p0_o2 => h_hfs1::<2, false, false, 0, 14, 7, _>;
    #[kani::proof] #[kani::unwind(20)] #[kani::stub(std::arch::x86_64::__cpuid_count, no_cpuid)] #[kani::stub(std::arch::x86_64::__cpuid, no_cpuid1)] hfs1_dotgit_lc_ig14_p1_o2 => h_hfs1::<2, false, false, 1, 14, 7, _>;
    #[kani::proof] #[kani::unwind(20)] #[kani::stub(std::arch::x86_64::__cpuid_count, no_cpuid)] #[kani::stub(std::arch::x86_64::__cpuid, no_cpuid1)] hfs1_dotgit_lc_ig14_p2_o2 => h_hfs1::<2, false, false, 2, 14, 7, _>;
    #[kani::proof] #[kani::unwind(20)] #[kani::stub(std::arch::x86_64::__cpuid_count, no_cpuid)] #[kani::stub(std::arch::x86_64::__cpuid, no_cpuid1)] hfs1_dotgit_lc_ig14_p3_o2 => h_hfs1::<2, false, false, 3, 14, 7, _>;
    #[kani::proof] #[kani::unwind(20)] #[kani::stub(std::arch::x86_64::__cpuid_count, no_cpuid)] #[kani::stub(std::arch::x86_64::__cpuid, no_cpuid1)] hfs1_dotgit_lc_ig14_p4_o2 => h_hfs1::<2, false, false, 4, 14, 7, _>;
    #[kani::proof] #[kani::unwind(20)] #[kani::stub(std::arch::x86_64::__cpuid_count, no_cpuid)] #[kani::stub(std::arch::x86_64::__cpuid, no_cpuid1)] hfs1_dotgit_ig14_p2_o2 => h_hfs1::<2, false, true, 2, 14, 7, _>;
    #[kani::proof] #[kani::unwind(30)] #[kani::stub(std::arch::x86_64::__cpuid_count, no_cpuid)] #[kani::stub(std::arch::x86_64::__cpuid, no_cpuid1)] hfs1_modules_lc_ig14_p5_o2 => h_hfs1::<2, true, false, 5, 14, 14, _>;
    #[kani::proof] #[kani::unwind(20)] #[kani::stub(std::arch::x86_64::__cpuid_count, no_cpuid)] #[kani::stub(std::arch::x86_64::__cpuid, no_cpuid1)] hfs1_dotgit_lc_ig15_p0_o2 => h_hfs1::<2, false, false, 0, 15, 7, _>;
    #[kani::proof] #[kani::unwind(20)] #[kani::stub(std::arch::x86_64::__cpuid_count, no_cpuid)] #[kani::stub(std::arch::x86_64::__cpuid, no_cpuid1)] hfs1_dotgit_lc_ig15_p1_o2 => h_hfs1::<2, false, false, 1, 15, 7, _>;
    #[kani::proof] #[kani::unwind(20)] #[kani::stub(std::arch::x86_64::__cpuid_count, no_cpuid)] #[kani::stub(std::arch::x86_64::__cpuid, no_cpuid1)] hfs1_dotgit_lc_ig15_p2_o2 => h_hfs1::<2, false, false, 2, 15, 7, _>;
    #[kani::proof] #[kani::unwind(20)] #[kani::stub(std::arch::x86_64::__cpuid_count, no_cpuid)] #[kani::stub(std::arch::x86_64::__cpuid, no_cpuid1)] hfs1_dotgit_lc_ig15_p3_o2 => h_hfs1::<2, false, false, 3, 15, 7, _>;
    #[kani::proof] #[kani::unwind(20)] #[kani::stub(std::arch::x86_64::__cpuid_count, no_cpuid)] #[kani::stub(std::arch::x86_64::__cpuid, no_cpuid1)] hfs1_dotgit_lc_ig15_p4_o2 => h_hfs1::<2, false, false, 4, 15, 7, _>;
    #[kani::proof] #[kani::unwind(20)] #[kani::stub(std::arch::x86_64::__cpuid_count, no_cpuid)] #[kani::stub(std::arch::x86_64::__cpuid, no_cpuid1)] hfs1_dotgit_ig15_p2_o2 => h_hfs1::<2, false, true, 2, 15, 7, _>;
    #[kani::proof] #[kani::unwind(30)] #[kani::stub(std::arch::x86_64::__cpuid_count, no_cpuid)] #[kani::stub(std::arch::x86_64::__cpuid, no_cpuid1)] hfs1_modules_lc_ig15_p5_o2 => h_hfs1::<2, true, false, 5, 15, 14, _>;
    #[kani::proof] #[kani::unwind(22)] #[kani::stub(std::arch::x86_64::__cpuid_count, no_cpuid)] #[kani::stub(std::arch::x86_64::__cpuid, no_cpuid1)] ntfs_modules_t0_o4 => h_ntfs_modules::<4, 0, false, 0, 11, _>;
    #[kani::proof] #[kani::unwind(22)] #[kani::stub(std::arch::x86_64::__cpuid_count, no_cpuid)] #[kani::stub(std::arch::x86_64::__cpuid, no_cpuid1)] ntfs_modules_t0_o7 => h_ntfs_modules::<7, 0, false, 0, 11, _>;
    #[kani::proof] #[kani::unwind(22)] #[kani::stub(std::arch::x86_64::__cpuid_count, no_cpuid)] #[kani::stub(std::arch::x86_64::__cpuid, no_cpuid1)] ntfs_modules_t2_o4 => h_ntfs_modules::<4, 2, false, 0, 13, _>;
    #[kani::proof] #[kani::unwind(22)] #[kani::stub(std::arch::x86_64::__cpuid_count, no_cpuid)] #[kani::stub(std::arch::x86_64::__cpuid, no_cpuid1)] ntfs_modules_t2_o7 => h_ntfs_modules::<7, 2, false, 0, 13, _>;
    #[kani::proof] #[kani::unwind(22)] #[kani::stub(std::arch::x86_64::__cpuid_count, no_cpuid)] #[kani::stub(std::arch::x86_64::__cpuid, no_cpuid1)] ntfs_modules_t1_stream1_o4 => h_ntfs_modules::<4, 1, true, 1, 14, _>;
    #[kani::proof] #[kani::unwind(22)] #[kani::stub(std::arch::x86_64::__cpuid_count, no_cpuid)] #[kani::stub(std::arch::x86_64::__cpuid, no_cpuid1)] ntfs_modules_t1_stream1_o7 => h_ntfs_modules::<7, 1, true, 1, 14, _>;
    #[kani::proof] #[kani::unwind(22)] #[kani::stub(std::arch::x86_64::__cpuid_count, no_cpuid)] #[kani::stub(std::arch::x86_64::__cpuid, no_cpuid1)] ntfs_modules_short_t0_o4 => h_ntfs_modules_short::<4, 0, 8, _>;
    #[kani::proof] #[kani::unwind(22)] #[kani::stub(std::arch::x86_64::__cpuid_count, no_cpuid)] #[kani::stub(std::arch::x86_64::__cpuid, no_cpuid1)] ntfs_modules_hash_t0_o4 => h_ntfs_modules_hash::<4, 0, 8, _>;
    #[kani::proof] #[kani::unwind(22)] #[kani::stub(std::arch::x86_64::__cpuid_count, no_cpuid)] #[kani::stub(std::arch::x86_64::__cpuid, no_cpuid1)] ntfs_modules_short_t0_o7 => h_ntfs_modules_short::<7, 0, 8, _>;
    #[kani::proof] #[kani::unwind(22)] #[kani::stub(std::arch::x86_64::__cpuid_count, no_cpuid)] #[kani::stub(std::arch::x86_64::__cpuid, no_cpuid1)] ntfs_modules_hash_t0_o7 => h_ntfs_modules_hash::<7, 0, 8, _>;
    #[kani::proof] #[kani::unwind(22)] #[kani::stub(std::arch::x86_64::__cpuid_count, no_cpuid)] #[kani::stub(std::arch::x86_64::__cpuid, no_cpuid1)] ntfs_modules_short_t2_o4 => h_ntfs_modules_short::<4, 2, 10, _>;
    #[kani::proof] #[kani::unwind(22)] #[kani::stub(std::arch::x86_64::__cpuid_count, no_cpuid)] #[kani::stub(std::arch::x86_64::__cpuid, no_cpuid1)] ntfs_modules_hash_t2_o4 => h_ntfs_modules_hash::<4, 2, 10, _>;
    #[kani::proof] #[kani::unwind(22)] #[kani::stub(std::arch::x86_64::__cpuid_count, no_cpuid)] #[kani::stub(std::arch::x86_64::__cpuid, no_cpuid1)] ntfs_modules_short_t2_o7 => h_ntfs_modules_short::<7, 2, 10, _>;
    #[kani::proof] #[kani::unwind(22)] #[kani::stub(std::arch::x86_64::__cpuid_count, no_cpuid)] #[kani::stub(std::arch::x86_64::__cpuid, no_cpuid1)] ntfs_modules_hash_t2_o7 => h_ntfs_modules_hash::<7, 2, 10, _>;
    #[kani::proof] #[kani::unwind(16)] #[kani::stub(std::arch::x86_64::__cpuid_count, no_cpuid)] #[kani::stub(std::arch::x86_64::__cpuid, no_cpuid1)] win_device_con_end_o5 => h_win_device::<5, 0, 0, 0, 0, 12, _>;
    #[kani::proof] #[kani::unwind(16)] #[kani::stub(std::arch::x86_64::__cpuid_count, no_cpuid)] #[kani::stub(std::arch::x86_64::__cpuid, no_cpuid1)] win_device_prn_end_o5 => h_win_device::<5, 1, 0, 0, 0, 12, _>;
    #[kani::proof] #[kani::unwind(16)] #[kani::stub(std::arch::x86_64::__cpuid_count, no_cpuid)] #[kani::stub(std::arch::x86_64::__cpuid, no_cpuid1)] win_device_aux_end_o5 => h_win_device::<5, 2, 0, 0, 0, 12, _>;
    #[kani::proof] #[kani::unwind(16)] #[kani::stub(std::arch::x86_64::__cpuid_count, no_cpuid)] #[kani::stub(std::arch::x86_64::__cpuid, no_cpuid1)] win_device_nul_end_o5 => h_win_device::<5, 3, 0, 0, 0, 12, _>;
    #[kani::proof] #[kani::unwind(16)] #[kani::stub(std::arch::x86_64::__cpuid_count, no_cpuid)] #[kani::stub(std::arch::x86_64::__cpuid, no_cpuid1)] win_device_com_end_o5 => h_win_device::<5, 4, 0, 0, 0, 12, _>;
    #[kani::proof] #[kani::unwind(16)] #[kani::stub(std::arch::x86_64::__cpuid_count, no_cpuid)] #[kani::stub(std::arch::x86_64::__cpuid, no_cpuid1)] win_device_lpt_end_o5 => h_win_device::<5, 5, 0, 0, 0, 12, _>;
    #[kani::proof] #[kani::unwind(16)] #[kani::stub(std::arch::x86_64::__cpuid_count, no_cpuid)] #[kani::stub(std::arch::x86_64::__cpuid, no_cpuid1)] win_device_conin_end_o5 => h_win_device::<5, 6, 0, 0, 0, 12, _>;
    #[kani::proof] #[kani::unwind(16)] #[kani::stub(std::arch::x86_64::__cpuid_count, no_cpuid)] #[kani::stub(std::arch::x86_64::__cpuid, no_cpuid1)] win_device_conout_end_o5 => h_win_device::<5, 7, 0, 0, 0, 12, _>;
    #[kani::proof] #[kani::unwind(16)] #[kani::stub(std::arch::x86_64::__cpuid_count, no_cpuid)] #[kani::stub(std::arch::x86_64::__cpuid, no_cpuid1)] win_device_con_end_o7 => h_win_device::<7, 0, 0, 0, 0, 12, _>;
    #[kani::proof] #[kani::unwind(16)] #[kani::stub(std::arch::x86_64::__cpuid_count, no_cpuid)] #[kani::stub(std::arch::x86_64::__cpuid, no_cpuid1)] win_device_prn_end_o7 => h_win_device::<7, 1, 0, 0, 0, 12, _>;
    #[kani::proof] #[kani::unwind(16)] #[kani::stub(std::arch::x86_64::__cpuid_count, no_cpuid)] #[kani::stub(std::arch::x86_64::__cpuid, no_cpuid1)] win_device_aux_end_o7 => h_win_device::<7, 2, 0, 0, 0, 12, _>;
    #[kani::proof] #[kani::unwind(16)] #[kani::stub(std::arch::x86_64::__cpuid_count, no_cpuid)] #[kani::stub(std::arch::x86_64::__cpuid, no_cpuid1)] win_device_nul_end_o7 => h_win_device::<7, 3, 0, 0, 0, 12, _>;
    #[kani::proof] #[kani::unwind(16)] #[kani::stub(std::arch::x86_64::__cpuid_count, no_cpuid)] #[kani::stub(std::arch::x86_64::__cpuid, no_cpuid1)] win_device_com_end_o7 => h_win_device::<7, 4, 0, 0, 0, 12, _>;
    #[kani::proof] #[kani::unwind(16)] #[kani::stub(std::arch::x86_64::__cpuid_count, no_cpuid)] #[kani::stub(std::arch::x86_64::__cpuid, no_cpuid1)] win_device_lpt_end_o7 => h_win_device::<7, 5, 0, 0, 0, 12, _>;
    #[kani::proof] #[kani::unwind(16)] #[kani::stub(std::arch::x86_64::__cpuid_count, no_cpuid)] #[kani::stub(std::arch::x86_64::__cpuid, no_cpuid1)] win_device_conin_end_o7 => h_win_device::<7, 6, 0, 0, 0, 12, _>;
    #[kani::proof] #[kani::unwind(16)] #[kani::stub(std::arch::x86_64::__cpuid_count, no_cpuid)] #[kani::stub(std::arch::x86_64::__cpuid, no_cpuid1)] win_device_conout_end_o7 => h_win_device::<7, 7, 0, 0, 0, 12, _>;
    #[kani::proof] #[kani::unwind(16)] #[kani::stub(std::arch::x86_64::__cpuid_count, no_cpuid)] #[kani::stub(std::arch::x86_64::__cpuid, no_cpuid1)] win_device_con_sp2_end_o5 => h_win_device::<5, 0, 2, 0, 0, 12, _>;
    #[kani::proof] #[kani::unwind(16)] #[kani::stub(std::arch::x86_64::__cpuid_count, no_cpuid)] #[kani::stub(std::arch::x86_64::__cpuid, no_cpuid1)] win_device_prn_sp2_end_o5 => h_win_device::<5, 1, 2, 0, 0, 12, _>;
    #[kani::proof] #[kani::unwind(16)] #[kani::stub(std::arch::x86_64::__cpuid_count, no_cpuid)] #[kani::stub(std::arch::x86_64::__cpuid, no_cpuid1)] win_device_aux_sp2_end_o5 => h_win_device::<5, 2, 2, 0, 0, 12, _>;
    #[kani::proof] #[kani::unwind(16)] #[kani::stub(std::arch::x86_64::__cpuid_count, no_cpuid)] #[kani::stub(std::arch::x86_64::__cpuid, no_cpuid1)] win_device_nul_sp2_end_o5 => h_win_device::<5, 3, 2, 0, 0, 12, _>;
    #[kani::proof] #[kani::unwind(16)] #[kani::stub(std::arch::x86_64::__cpuid_count, no_cpuid)] #[kani::stub(std::arch::x86_64::__cpuid, no_cpuid1)] win_device_com_sp2_end_o5 => h_win_device::<5, 4, 2, 0, 0, 12, _>;
    #[kani::proof] #[kani::unwind(16)] #[kani::stub(std::arch::x86_64::__cpuid_count, no_cpuid)] #[kani::stub(std::arch::x86_64::__cpuid, no_cpuid1)] win_device_lpt_sp2_end_o5 => h_win_device::<5, 5, 2, 0, 0, 12, _>;
    #[kani::proof] #[kani::unwind(16)] #[kani::stub(std::arch::x86_64::__cpuid_count, no_cpuid)] #[kani::stub(std::arch::x86_64::__cpuid, no_cpuid1)] win_device_conin_sp2_end_o5 => h_win_device::<5, 6, 2, 0, 0, 12, _>;
    #[kani::proof] #[kani::unwind(16)] #[kani::stub(std::arch::x86_64::__cpuid_count, no_cpuid)] #[kani::stub(std::arch::x86_64::__cpuid, no_cpuid1)] win_device_conout_sp2_end_o5 => h_win_device::<5, 7, 2, 0, 0, 12, _>;
    #[kani::proof] #[kani::unwind(16)] #[kani::stub(std::arch::x86_64::__cpuid_count, no_cpuid)] #[kani::stub(std::arch::x86_64::__cpuid, no_cpuid1)] win_device_con_sp2_end_o7 => h_win_device::<7, 0, 2, 0, 0, 12, _>;
    #[kani::proof] #[kani::unwind(16)] #[kani::stub(std::arch::x86_64::__cpuid_count, no_cpuid)] #[kani::stub(std::arch::x86_64::__cpuid, no_cpuid1)] win_device_prn_sp2_end_o7 => h_win_device::<7, 1, 2, 0, 0, 12, _>;
    #[kani::proof] #[kani::unwind(16)] #[kani::stub(std::arch::x86_64::__cpuid_count, no_cpuid)] #[kani::stub(std::arch::x86_64::__cpuid, no_cpuid1)] win_device_aux_sp2_end_o7 => h_win_device::<7, 2, 2, 0, 0, 12, _>;
    #[kani::proof] #[kani::unwind(16)] #[kani::stub(std::arch::x86_64::__cpuid_count, no_cpuid)] #[kani::stub(std::arch::x86_64::__cpuid, no_cpuid1)] win_device_nul_sp2_end_o7 => h_win_device::<7, 3, 2, 0, 0, 12, _>;
    #[kani::proof] #[kani::unwind(16)] #[kani::stub(std::arch::x86_64::__cpuid_count, no_cpuid)] #[kani::stub(std::arch::x86_64::__cpuid, no_cpuid1)] win_device_com_sp2_end_o7 => h_win_device::<7, 4, 2, 0, 0, 12, _>;
    #[kani::proof] #[kani::unwind(16)] #[kani::stub(std::arch::x86_64::__cpuid_count, no_cpuid)] #[kani::stub(std::arch::x86_64::__cpuid, no_cpuid1)] win_device_lpt_sp2_end_o7 => h_win_device::<7, 5, 2, 0, 0, 12, _>;
    #[kani::proof] #[kani::unwind(16)] #[kani::stub(std::arch::x86_64::__cpuid_count, no_cpuid)] #[kani::stub(std::arch::x86_64::__cpuid, no_cpuid1)] win_device_conin_sp2_end_o7 => h_win_device::<7, 6, 2, 0, 0, 12, _>;
    #[kani::proof] #[kani::unwind(16)] #[kani::stub(std::arch::x86_64::__cpuid_count, no_cpuid)] #[kani::stub(std::arch::x86_64::__cpuid, no_cpuid1)] win_device_conout_sp2_end_o7 => h_win_device::<7, 7, 2, 0, 0, 12, _>;
    #[kani::proof] #[kani::unwind(16)] #[kani::stub(std::arch::x86_64::__cpuid_count, no_cpuid)] #[kani::stub(std::arch::x86_64::__cpuid, no_cpuid1)] win_device_con_dot2_o5 => h_win_device::<5, 0, 0, 1, 2, 12, _>;
    #[kani::proof] #[kani::unwind(16)] #[kani::stub(std::arch::x86_64::__cpuid_count, no_cpuid)] #[kani::stub(std::arch::x86_64::__cpuid, no_cpuid1)] win_device_prn_dot2_o5 => h_win_device::<5, 1, 0, 1, 2, 12, _>;
    #[kani::proof] #[kani::unwind(16)] #[kani::stub(std::arch::x86_64::__cpuid_count, no_cpuid)] #[kani::stub(std::arch::x86_64::__cpuid, no_cpuid1)] win_device_aux_dot2_o5 => h_win_device::<5, 2, 0, 1, 2, 12, _>;
    #[kani::proof] #[kani::unwind(16)] #[kani::stub(std::arch::x86_64::__cpuid_count, no_cpuid)] #[kani::stub(std::arch::x86_64::__cpuid, no_cpuid1)] win_device_nul_dot2_o5 => h_win_device::<5, 3, 0, 1, 2, 12, _>;
    #[kani::proof] #[kani::unwind(16)] #[kani::stub(std::arch::x86_64::__cpuid_count, no_cpuid)] #[kani::stub(std::arch::x86_64::__cpuid, no_cpuid1)] win_device_com_dot2_o5 => h_win_device::<5, 4, 0, 1, 2, 12, _>;
    #[kani::proof] #[kani::unwind(16)] #[kani::stub(std::arch::x86_64::__cpuid_count, no_cpuid)] #[kani::stub(std::arch::x86_64::__cpuid, no_cpuid1)] win_device_lpt_dot2_o5 => h_win_device::<5, 5, 0, 1, 2, 12, _>;
    #[kani::proof] #[kani::unwind(16)] #[kani::stub(std::arch::x86_64::__cpuid_count, no_cpuid)] #[kani::stub(std::arch::x86_64::__cpuid, no_cpuid1)] win_device_conin_dot2_o5 => h_win_device::<5, 6, 0, 1, 2, 12, _>;
    #[kani::proof] #[kani::unwind(16)] #[kani::stub(std::arch::x86_64::__cpuid_count, no_cpuid)] #[kani::stub(std::arch::x86_64::__cpuid, no_cpuid1)] win_device_conout_dot2_o5 => h_win_device::<5, 7, 0, 1, 2, 12, _>;
    #[kani::proof] #[kani::unwind(16)] #[kani::stub(std::arch::x86_64::__cpuid_count, no_cpuid)] #[kani::stub(std::arch::x86_64::__cpuid, no_cpuid1)] win_device_con_dot2_o7 => h_win_device::<7, 0, 0, 1, 2, 12, _>;
    #[kani::proof] #[kani::unwind(16)] #[kani::stub(std::arch::x86_64::__cpuid_count, no_cpuid)] #[kani::stub(std::arch::x86_64::__cpuid, no_cpuid1)] win_device_prn_dot2_o7 => h_win_device::<7, 1, 0, 1, 2, 12, _>;
    #[kani::proof] #[kani::unwind(16)] #[kani::stub(std::arch::x86_64::__cpuid_count, no_cpuid)] #[kani::stub(std::arch::x86_64::__cpuid, no_cpuid1)] win_device_aux_dot2_o7 => h_win_device::<7, 2, 0, 1, 2, 12, _>;
    #[kani::proof] #[kani::unwind(16)] #[kani::stub(std::arch::x86_64::__cpuid_count, no_cpuid)] #[kani::stub(std::arch::x86_64::__cpuid, no_cpuid1)] win_device_nul_dot2_o7 => h_win_device::<7, 3, 0, 1, 2, 12, _>;
    #[kani::proof] #[kani::unwind(16)] #[kani::stub(std::arch::x86_64::__cpuid_count, no_cpuid)] #[kani::stub(std::arch::x86_64::__cpuid, no_cpuid1)] win_device_com_dot2_o7 => h_win_device::<7, 4, 0, 1, 2, 12, _>;
    #[kani::proof] #[kani::unwind(16)] #[kani::stub(std::arch::x86_64::__cpuid_count, no_cpuid)] #[kani::stub(std::arch::x86_64::__cpuid, no_cpuid1)] win_device_lpt_dot2_o7 => h_win_device::<7, 5, 0, 1, 2, 12, _>;
    #[kani::proof] #[kani::unwind(16)] #[kani::stub(std::arch::x86_64::__cpuid_count, no_cpuid)] #[kani::stub(std::arch::x86_64::__cpuid, no_cpuid1)] win_device_conin_dot2_o7 => h_win_device::<7, 6, 0, 1, 2, 12, _>;
    #[kani::proof] #[kani::unwind(16)] #[kani::stub(std::arch::x86_64::__cpuid_count, no_cpuid)] #[kani::stub(std::arch::x86_64::__cpuid, no_cpuid1)] win_device_conout_dot2_o7 => h_win_device::<7, 7, 0, 1, 2, 12, _>;
    #[kani::proof] #[kani::unwind(16)] #[kani::stub(std::arch::x86_64::__cpuid_count, no_cpuid)] #[kani::stub(std::arch::x86_64::__cpuid, no_cpuid1)] win_device_con_sp1_colon2_o5 => h_win_device::<5, 0, 1, 2, 2, 12, _>;
    #[kani::proof] #[kani::unwind(16)] #[kani::stub(std::arch::x86_64::__cpuid_count, no_cpuid)] #[kani::stub(std::arch::x86_64::__cpuid, no_cpuid1)] win_device_prn_sp1_colon2_o5 => h_win_device::<5, 1, 1, 2, 2, 12, _>;
    #[kani::proof] #[kani::unwind(16)] #[kani::stub(std::arch::x86_64::__cpuid_count, no_cpuid)] #[kani::stub(std::arch::x86_64::__cpuid, no_cpuid1)] win_device_aux_sp1_colon2_o5 => h_win_device::<5, 2, 1, 2, 2, 12, _>;
    #[kani::proof] #[kani::unwind(16)] #[kani::stub(std::arch::x86_64::__cpuid_count, no_cpuid)] #[kani::stub(std::arch::x86_64::__cpuid, no_cpuid1)] win_device_nul_sp1_colon2_o5 => h_win_device::<5, 3, 1, 2, 2, 12, _>;
    #[kani::proof] #[kani::unwind(16)] #[kani::stub(std::arch::x86_64::__cpuid_count, no_cpuid)] #[kani::stub(std::arch::x86_64::__cpuid, no_cpuid1)] win_device_com_sp1_colon2_o5 => h_win_device::<5, 4, 1, 2, 2, 12, _>;
    #[kani::proof] #[kani::unwind(16)] #[kani::stub(std::arch::x86_64::__cpuid_count, no_cpuid)] #[kani::stub(std::arch::x86_64::__cpuid, no_cpuid1)] win_device_lpt_sp1_colon2_o5 => h_win_device::<5, 5, 1, 2, 2, 12, _>;
    #[kani::proof] #[kani::unwind(16)] #[kani::stub(std::arch::x86_64::__cpuid_count, no_cpuid)] #[kani::stub(std::arch::x86_64::__cpuid, no_cpuid1)] win_device_conin_sp1_colon2_o5 => h_win_device::<5, 6, 1, 2, 2, 12, _>;
    #[kani::proof] #[kani::unwind(16)] #[kani::stub(std::arch::x86_64::__cpuid_count, no_cpuid)] #[kani::stub(std::arch::x86_64::__cpuid, no_cpuid1)] win_device_conout_sp1_colon2_o5 => h_win_device::<5, 7, 1, 2, 2, 12, _>;
    #[kani::proof] #[kani::unwind(16)] #[kani::stub(std::arch::x86_64::__cpuid_count, no_cpuid)] #[kani::stub(std::arch::x86_64::__cpuid, no_cpuid1)] win_device_con_sp1_colon2_o7 => h_win_device::<7, 0, 1, 2, 2, 12, _>;
    #[kani::proof] #[kani::unwind(16)] #[kani::stub(std::arch::x86_64::__cpuid_count, no_cpuid)] #[kani::stub(std::arch::x86_64::__cpuid, no_cpuid1)] win_device_prn_sp1_colon2_o7 => h_win_device::<7, 1, 1, 2, 2, 12, _>;
    #[kani::proof] #[kani::unwind(16)] #[kani::stub(std::arch::x86_64::__cpuid_count, no_cpuid)] #[kani::stub(std::arch::x86_64::__cpuid, no_cpuid1)] win_device_aux_sp1_colon2_o7 => h_win_device::<7, 2, 1, 2, 2, 12, _>;
    #[kani::proof] #[kani::unwind(16)] #[kani::stub(std::arch::x86_64::__cpuid_count, no_cpuid)] #[kani::stub(std::arch::x86_64::__cpuid, no_cpuid1)] win_device_nul_sp1_colon2_o7 => h_win_device::<7, 3, 1, 2, 2, 12, _>;
    #[kani::proof] #[kani::unwind(16)] #[kani::stub(std::arch::x86_64::__cpuid_count, no_cpuid)] #[kani::stub(std::arch::x86_64::__cpuid, no_cpuid1)] win_device_com_sp1_colon2_o7 => h_win_device::<7, 4, 1, 2, 2, 12, _>;
    #[kani::proof] #[kani::unwind(16)] #[kani::stub(std::arch::x86_64::__cpuid_count, no_cpuid)] #[kani::stub(std::arch::x86_64::__cpuid, no_cpuid1)] win_device_lpt_sp1_colon2_o7 => h_win_device::<7, 5, 1, 2, 2, 12, _>;
    #[kani::proof] #[kani::unwind(16)] #[kani::stub(std::arch::x86_64::__cpuid_count, no_cpuid)] #[kani::stub(std::arch::x86_64::__cpuid, no_cpuid1)] win_device_conin_sp1_colon2_o7 => h_win_device::<7, 6, 1, 2, 2, 12, _>;
    #[kani::proof] #[kani::unwind(16)] #[kani::stub(std::arch::x86_64::__cpuid_count, no_cpuid)] #[kani::stub(std::arch::x86_64::__cpuid, no_cpuid1)] win_device_conout_sp1_colon2_o7 => h_win_device::<7, 7, 1, 2, 2, 12, _>;
    #[kani::proof] #[kani::unwind(16)] #[kani::stub(std::arch::x86_64::__cpuid_count, no_cpuid)] #[kani::stub(std::arch::x86_64::__cpuid, no_cpuid1)] separators_3_o0 => h_separators::<0, 3, _>;
    #[kani::proof] #[kani::unwind(16)] #[kani::stub(std::arch::x86_64::__cpuid_count, no_cpuid)] #[kani::stub(std::arch::x86_64::__cpuid, no_cpuid1)] separators_3_o1 => h_separators::<1, 3, _>;
    #[kani::proof] #[kani::unwind(16)] #[kani::stub(std::arch::x86_64::__cpuid_count, no_cpuid)] #[kani::stub(std::arch::x86_64::__cpuid, no_cpuid1)] separators_3_o7 => h_separators::<7, 3, _>;
}

#[cfg(not(kani))]
fn main() {
    let (name, mut s) = Replay::from_env();
    if !replay_dispatch(&name, &mut s) {
        println!("REPLAY-UNKNOWN-HARNESS {name}");
        std::process::exit(4);
    }
    println!("REPLAY-COMPLETED-WITHOUT-FAILURE reached={}", s.reached);
}
#[cfg(kani)]
fn main() {}
