// U-refname (C15, C06): gix_validate::{tag::name, reference::{name, name_partial, name_partial_or_sanitize}}
// against the rules of git-check-ref-format(1), written as predicates over bytes.
include!("../../../../engine/src_trait.rs");
use bstr::ByteSlice;

/// SPEC: `git check-ref-format --allow-onelevel <s>` accepts s (rules 1, 3-10 of the manual page;
/// rule 2 -- "must contain a slash" -- is the one-level rule handled separately below).
fn git_refname_ok(s: &[u8]) -> bool {
    let n = s.len();
    if n == 0 { return false; }                                   // empty
    if n == 1 && s[0] == b'@' { return false; }                   // 9: not the single character @
    if s[0] == b'/' || s[n - 1] == b'/' { return false; }         // 6: no leading / trailing slash
    if s[n - 1] == b'.' { return false; }                         // 7: cannot end with a dot
    let mut i = 0;
    while i < n {
        let c = s[i];
        if c < 0x20 || c == 0x7f || c == b' ' || c == b'~' || c == b'^' || c == b':' { return false; }   // 4
        if c == b'?' || c == b'*' || c == b'[' { return false; }  // 5
        if c == b'\\' { return false; }                           // 10
        if i + 1 < n {
            let d = s[i + 1];
            if c == b'.' && d == b'.' { return false; }           // 3: no ..
            if c == b'/' && d == b'/' { return false; }           // 6: no //
            if c == b'@' && d == b'{' { return false; }           // 8: no @{
            if c == b'/' && d == b'.' { return false; }           // 1: no component starts with .
        }
        // 1: no component ends with .lock  (component end = next is '/' or end of string)
        if (i + 1 == n || s[i + 1] == b'/') && i >= 4
            && s[i - 4] == b'.' && s[i - 3] == b'l' && s[i - 2] == b'o' && s[i - 1] == b'c' && s[i] == b'k' { return false; }
        i += 1;
    }
    if s[0] == b'.' { return false; }                             // 1: first component starts with .
    true
}
/// git's one-level rule (refname_is_safe / is_pseudoref_syntax): without a slash only [A-Z_]+ names such as HEAD
fn onelevel_ok(s: &[u8]) -> bool {
    let mut slash = false; let mut upper = true;
    let mut i = 0;
    while i < s.len() { if s[i] == b'/' { slash = true; } if !(s[i].is_ascii_uppercase() || s[i] == b'_') { upper = false; } i += 1; }
    slash || upper
}

/// post 1: validators accept exactly git's names (the single "@" is a recorded known finding, checked separately)
fn h_validate<const L: usize, S: Src>(s: &mut S) {
    let b: [u8; L] = s.bytes();
    s.assume(!(L == 1 && b[0] == b'@'));
    let spec = git_refname_ok(&b[..]);
    let tag = gix_validate::tag::name(b[..].as_bstr()).is_ok();
    assert!(tag == spec, "tag::name accepts exactly what git check-ref-format --allow-onelevel accepts");
    let partial = gix_validate::reference::name_partial(b[..].as_bstr()).is_ok();
    assert!(partial == spec, "reference::name_partial accepts exactly git's names");
    s.reach();
}
/// reference::name: git's names that also satisfy the one-level rule (separate harness: it goes through memchr)
fn h_validate_full<const L: usize, S: Src>(s: &mut S) {
    let b: [u8; L] = s.bytes();
    s.assume(!(L == 1 && b[0] == b'@'));
    let spec = git_refname_ok(&b[..]);
    let full = gix_validate::reference::name(b[..].as_bstr()).is_ok();
    assert!(full == (spec && onelevel_ok(&b[..])), "reference::name additionally applies git's one-level rule");
    s.reach();
}
/// git refuses the single character "@"; gitoxide accepts it (its own test-suite asserts so): known finding
fn h_known_at_sign<S: Src>(s: &mut S) {
    s.reach();
    assert!(gix_validate::tag::name(b"@".as_bstr()).is_err(), "git check-ref-format refuses the name '@'");
}
/// post 2: sanitizing never panics and yields a name git accepts (and the validator accepts)
fn h_sanitize<const L: usize, S: Src>(s: &mut S) {
    let b: [u8; L] = s.bytes();
    let out = gix_validate::reference::name_partial_or_sanitize(b[..].as_bstr());
    assert!(gix_validate::reference::name_partial(out.as_bstr()).is_ok(), "sanitized name passes validation");
    s.assume(!(out.len() == 1 && out[0] == b'@'));
    assert!(git_refname_ok(&out[..]), "sanitized name is a valid git reference name");
    s.reach();
}
/// sanitizer skeletons: separators and `.lock` runs with one symbolic byte inserted at a symbolic position
fn h_sanitize_skeleton<const A: usize, const B: usize, const C: usize, const N: usize, S: Src>(s: &mut S) {
    // skeleton = '/'^A ++ ".lock"^B ++ '/'^C  (N = A + 5B + C + 1)
    let mut sk = [0u8; N];
    let pos = s.usize();
    s.assume(pos < N);
    let ins = s.u8();
    let lock = *b".lock";
    let mut k = 0; let mut w = 0;
    while w < N {
        if w == pos { sk[w] = ins; w += 1; continue; }
        sk[w] = if k < A { b'/' } else if k < A + 5 * B { lock[(k - A) % 5] } else { b'/' };
        k += 1; w += 1;
    }
    let out = gix_validate::reference::name_partial_or_sanitize(sk[..].as_bstr());
    assert!(gix_validate::reference::name_partial(out.as_bstr()).is_ok(), "sanitized name passes validation");
    s.reach();
}

#[allow(dead_code)]
fn no_cpuid(_leaf: u32, _sub: u32) -> std::arch::x86_64::CpuidResult { std::arch::x86_64::CpuidResult { eax: 0, ebx: 0, ecx: 0, edx: 0 } }
#[allow(dead_code)]
fn no_cpuid1(_leaf: u32) -> std::arch::x86_64::CpuidResult { std::arch::x86_64::CpuidResult { eax: 0, ebx: 0, ecx: 0, edx: 0 } }

harnesses! {
    #[kani::proof] #[kani::unwind(4)] validate_0 => h_validate::<0, _>;
    #[kani::proof] #[kani::unwind(4)] validate_1 => h_validate::<1, _>;
    #[kani::proof] #[kani::unwind(5)] validate_2 => h_validate::<2, _>;
    #[kani::proof] #[kani::unwind(6)] validate_3 => h_validate::<3, _>;
    #[kani::proof] #[kani::unwind(7)] validate_4 => h_validate::<4, _>;
    #[kani::proof] #[kani::unwind(8)] validate_5 => h_validate::<5, _>;
    #[kani::proof] #[kani::unwind(9)] validate_6 => h_validate::<6, _>;
    #[kani::proof] #[kani::unwind(10)] validate_7 => h_validate::<7, _>;
    #[kani::proof] #[kani::unwind(11)] validate_8 => h_validate::<8, _>;
    #[kani::proof] #[kani::unwind(4)] #[kani::stub(std::arch::x86_64::__cpuid_count, no_cpuid)] #[kani::stub(std::arch::x86_64::__cpuid, no_cpuid1)] validate_full_0 => h_validate_full::<0, _>;
    #[kani::proof] #[kani::unwind(5)] #[kani::stub(std::arch::x86_64::__cpuid_count, no_cpuid)] #[kani::stub(std::arch::x86_64::__cpuid, no_cpuid1)] validate_full_1 => h_validate_full::<1, _>;
    #[kani::proof] #[kani::unwind(6)] #[kani::stub(std::arch::x86_64::__cpuid_count, no_cpuid)] #[kani::stub(std::arch::x86_64::__cpuid, no_cpuid1)] validate_full_2 => h_validate_full::<2, _>;
    #[kani::proof] #[kani::unwind(7)] #[kani::stub(std::arch::x86_64::__cpuid_count, no_cpuid)] #[kani::stub(std::arch::x86_64::__cpuid, no_cpuid1)] validate_full_3 => h_validate_full::<3, _>;
    #[kani::proof] #[kani::unwind(8)] #[kani::stub(std::arch::x86_64::__cpuid_count, no_cpuid)] #[kani::stub(std::arch::x86_64::__cpuid, no_cpuid1)] validate_full_4 => h_validate_full::<4, _>;
    #[kani::proof] #[kani::unwind(9)] #[kani::stub(std::arch::x86_64::__cpuid_count, no_cpuid)] #[kani::stub(std::arch::x86_64::__cpuid, no_cpuid1)] validate_full_5 => h_validate_full::<5, _>;
    #[kani::proof] #[kani::unwind(4)] known_at_sign => h_known_at_sign::<_>;
    #[kani::proof] #[kani::unwind(7)] sanitize_0 => h_sanitize::<0, _>;
    #[kani::proof] #[kani::unwind(7)] sanitize_1 => h_sanitize::<1, _>;
    #[kani::proof] #[kani::unwind(7)] sanitize_2 => h_sanitize::<2, _>;
    #[kani::proof] #[kani::unwind(8)] sanitize_3 => h_sanitize::<3, _>;
    #[kani::proof] #[kani::unwind(9)] sanitize_4 => h_sanitize::<4, _>;
    #[kani::proof] #[kani::unwind(10)] skeleton_1_1_0 => h_sanitize_skeleton::<1, 1, 0, 7, _>;
    #[kani::proof] #[kani::unwind(10)] skeleton_0_1_1 => h_sanitize_skeleton::<0, 1, 1, 7, _>;
    #[kani::proof] #[kani::unwind(10)] skeleton_2_0_2 => h_sanitize_skeleton::<2, 0, 2, 5, _>;
}

#[cfg(not(kani))]
fn main() {
    // development aid (not part of any check): print the spec's verdict for hex-encoded names on stdin,
    // used to cross-check git_refname_ok against `git check-ref-format --allow-onelevel`
    if std::env::var("GIX_VERIF_SPEC_DUMP").is_ok() {
        use std::io::BufRead;
        for line in std::io::stdin().lock().lines() {
            let line = line.unwrap();
            let bytes: Vec<u8> = (0..line.len() / 2).map(|i| u8::from_str_radix(&line[2 * i..2 * i + 2], 16).unwrap()).collect();
            println!("{} {} {}", line, git_refname_ok(&bytes) as u8, gix_validate::tag::name(bytes.as_bstr()).is_ok() as u8);
        }
        return;
    }
    let (name, mut s) = Replay::from_env();
    if !replay_dispatch(&name, &mut s) {
        println!("REPLAY-UNKNOWN-HARNESS {name}");
        std::process::exit(4);
    }
    println!("REPLAY-COMPLETED-WITHOUT-FAILURE reached={}", s.reached);
}
#[cfg(kani)]
fn main() {}
