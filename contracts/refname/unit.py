"""U-refname (C15, C06): reference name validation and sanitizing."""
FUNCS = ["gix_validate::tag::name", "gix_validate::tag::name_inner", "gix_validate::reference::name", "gix_validate::reference::name_partial",
         "gix_validate::reference::name_partial_or_sanitize", "gix_validate::reference::validate"]

def H(name, props, bound, tier="quick", timeout=900, mem_gb=12, **kw):
    d = {"name": name, "props": props, "tier": tier, "kind": "bounded", "bound": bound, "timeout": timeout, "mem_gb": mem_gb}
    d.update(kw)
    return d

KANI = [{
    "mode": "external",
    "functions": FUNCS,
    "harnesses":
        [H("validate_%d" % n, ["C15", "C06"] if n <= 3 else ["C15"], "every byte string of length %d" % n, tier="quick", timeout=3600 if n > 5 else 900, mem_gb=12) for n in range(0, 9)]
        + [H("validate_full_%d" % n, ["C15"], "reference::name on every byte string of length %d" % n, tier="quick" if n <= 3 else "thorough", timeout=1800) for n in range(0, 6)]
        + [H("known_at_sign", ["C15"], "the single name '@'", known_finding="refname.known_at_sign")]
        + [H("sanitize_%d" % n, ["C15", "C06"], "every byte string of length %d" % n, tier="quick" if n <= 3 else "off", mem_gb=20 if n > 3 else 12, timeout=3600 if n > 2 else 900) for n in range(0, 5)]
        + [H("skeleton_1_1_0", ["C15"], "'/' ++ '.lock' with one arbitrary byte inserted at any position", tier="off", timeout=3000, mem_gb=24),
           H("skeleton_0_1_1", ["C15"], "'.lock' ++ '/' with one arbitrary byte inserted at any position", tier="off", timeout=3000, mem_gb=24),
           H("skeleton_2_0_2", ["C15"], "'////' with one arbitrary byte inserted at any position", tier="off", timeout=3000, mem_gb=24)],
}]
ASSUMPTIONS = [
    ("C15", "the specification git_refname_ok is the rule list of git-check-ref-format(1) written as byte predicates (contracts/refname/kani/src/main.rs); it was cross-checked against `git check-ref-format` at development time only"),
    ("C15", "bounded: validators for every byte string up to 5 (quick) / 8 (thorough) bytes, sanitizer up to 3 / 4 bytes plus separator/.lock skeletons; longer names are not explored"),
]
