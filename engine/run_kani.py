"""Run Kani harnesses (real crates from /repo) and classify the outcome.

A harness result is one of
  success    every check SUCCESS, unwinding assertions included, and the reach-cover SATISFIED
  failure    a named check has Status: FAILURE (assertion, overflow, bounds, panic ...) -> violation candidate
  undecided  timeout, out of memory, unwinding assertion failed, unsupported construct,
             compile error, vacuous harness (cover unreachable)  -> exit 2, never a VIOLATION
"""
import os
import re
import shutil

from common import BUILD, REPO, VERIF, base_env, run, write, read

KANI_FLAGS = ["-Z", "function-contracts", "-Z", "stubbing", "-Z", "concrete-playback",
              "--concrete-playback=print"]


def crate_cwd(crate):
    if crate["mode"] == "in_crate":
        return os.path.join(REPO, crate["repo_crate"])
    return os.path.join(VERIF, "contracts", crate["unit"], "kani")


def target_dir(crate):
    return os.path.join(BUILD, "kani", crate["unit"] + ("-" + crate["repo_crate"] if crate["mode"] == "in_crate" else ""))


def replay_dir(crate):
    if crate["mode"] == "in_crate":
        return os.path.join(VERIF, "contracts", crate["unit"], "replay")
    return os.path.join(VERIF, "contracts", crate["unit"], "kani")


def prepare(crate):
    """external harness crates use /repo's lock file so that the dependency versions are the pinned ones"""
    if crate["mode"] != "in_crate":
        dst = os.path.join(crate_cwd(crate), "Cargo.lock")
        shutil.copyfile(os.path.join(REPO, "Cargo.lock"), dst)


def env_for(crate):
    env = base_env()
    env["CARGO_TARGET_DIR"] = target_dir(crate)
    return env


def build(crate, timeout=1500):
    prepare(crate)
    cmd = ["cargo", "kani"] + KANI_FLAGS[:4] + ["--only-codegen"] + crate.get("cargo_args", [])
    rc, out, secs, to = run(cmd, cwd=crate_cwd(crate), env=env_for(crate), timeout=timeout)
    ok = rc == 0 and not to
    return ok, out, secs


CHECK_RE = re.compile(
    r"Check (\d+): ([^\n]+)\n\s*- Status: (\w+)\n\s*- Description: \"([^\n]*)\"\n(?:\s*- Location: ([^\n]*)\n)?")


def parse_output(out):
    checks = []
    for m in CHECK_RE.finditer(out):
        checks.append({"n": int(m.group(1)), "name": m.group(2), "status": m.group(3),
                       "description": m.group(4), "location": (m.group(5) or "").strip()})
    res = {"checks": checks}
    m = re.search(r"\*\* (\d+) of (\d+) failed", out)
    res["summary_failed"] = int(m.group(1)) if m else None
    res["summary_total"] = int(m.group(2)) if m else None
    m = re.search(r"\*\* (\d+) of (\d+) cover properties satisfied", out)
    res["covers"] = (int(m.group(1)), int(m.group(2))) if m else None
    m = re.search(r"Verification Time: ([0-9.]+)s", out)
    res["verification_time"] = float(m.group(1)) if m else None
    if "VERIFICATION:- SUCCESSFUL" in out:
        res["verdict"] = "SUCCESSFUL"
    elif "VERIFICATION:- FAILED" in out:
        res["verdict"] = "FAILED"
    else:
        res["verdict"] = None
    res["stubs"] = re.findall(r"- Stub: ([^\n]+)", out) + re.findall(r"Verified stub: ([^\n]+)", out)
    # concrete playback values
    vals = None
    m = re.search(r"let concrete_vals: Vec<Vec<u8>> = vec!\[(.*?)\n\s*\];", out, re.S)
    if m:
        vals = []
        for line in m.group(1).splitlines():
            line = line.strip()
            mm = re.match(r"vec!\[(.*)\],?$", line)
            if mm:
                body = mm.group(1).strip()
                vals.append([int(x) for x in body.split(",") if x.strip()] if body else [])
    res["concrete_vals"] = vals
    return res


UNSUPPORTED_MARKERS = ("not currently supported", "is not supported", "unsupported", "Unsupported")


def classify(parsed, rc, timed_out, out):
    """-> (status, reason, failed_checks)"""
    if timed_out:
        return "undecided", "timeout", []
    if parsed["verdict"] is None:
        if "error: could not compile" in out or "error[E" in out:
            return "undecided", "harness does not compile against the current tree", []
        return "undecided", "no verdict from Kani (rc=%s): %s" % (rc, out[-400:].replace("\n", " | ")), []
    failed = [c for c in parsed["checks"] if c["status"] == "FAILURE"]
    if parsed["verdict"] == "SUCCESSFUL":
        cov = parsed["covers"]
        if not cov or cov[0] < 1:
            return "undecided", "vacuity guard: the harness' reach-cover is not satisfiable", []
        return "success", "", []
    # FAILED
    unwind = [c for c in failed if "unwinding assertion" in c["description"]]
    unsupported = [c for c in failed if any(mk in c["description"] for mk in UNSUPPORTED_MARKERS)]
    real = [c for c in failed if c not in unwind and c not in unsupported]
    if real:
        return "failure", "", real
    if unwind:
        return "undecided", "unwinding assertion failed (bound too small): " + unwind[0]["location"], []
    if unsupported:
        return "undecided", "unsupported construct: " + unsupported[0]["description"], []
    # cover-only failures / OOM (`0 of N failed`)
    cov = parsed["covers"]
    if parsed["summary_failed"] == 0 and cov and cov[0] < cov[1]:
        return "undecided", "vacuity guard: the harness' reach-cover is not satisfiable", []
    return "undecided", "Kani reported FAILED without a failed check (out of memory / solver abort)", []


def run_harness(crate, h, log_dir):
    name = h["name"]
    full = crate.get("harness_prefix", "kani_proofs::") + name
    cmd = ["cargo", "kani"] + KANI_FLAGS + ["--harness", full, "--exact"] + crate.get("cargo_args", []) + h.get("args", [])
    rc, out, secs, to = run(cmd, cwd=crate_cwd(crate), env=env_for(crate),
                            timeout=h.get("timeout", 600),
                            # address-space cap: CBMC/SAT solvers reserve far more virtual memory than they touch;
                            # the driver's memory gate accounts mem_gb of resident memory per harness
                            mem_gb=h.get("mem_gb", 12) * 2.5)
    log = os.path.join(log_dir, "%s.%s.log" % (crate["unit"], name))
    write(log, out)
    parsed = parse_output(out)
    if "no harnesses matched" in out.lower() or "No proof harnesses" in out:
        status, reason, failed = "undecided", "harness %s not found (anchor lost)" % full, []
    else:
        status, reason, failed = classify(parsed, rc, to, out)
    return {
        "unit": crate["unit"], "harness": name, "full_name": full, "status": status, "reason": reason,
        "failed_checks": failed, "n_checks": len([c for c in parsed["checks"] if ".cover." not in c["name"]]),
        # UNREACHABLE = the checked statement is dead for every input of the harness: discharged
        "n_success": len([c for c in parsed["checks"] if c["status"] in ("SUCCESS", "UNREACHABLE") and ".cover." not in c["name"]]),
        "covers": parsed["covers"], "wall_s": round(secs, 2), "solver_s": parsed["verification_time"],
        "concrete_vals": parsed["concrete_vals"], "stubs": parsed["stubs"], "log": log,
        "replay_dir": replay_dir(crate), "in_crate": crate["mode"] == "in_crate", "repo_crate": crate.get("repo_crate"), "cargo_args": crate.get("cargo_args"),
        "kind": h.get("kind", "bounded"), "bound": h.get("bound", ""), "props": h.get("props", []),
        "functions": h.get("functions", crate.get("functions", [])),
        "cmd": "cd %s && GIX_VERIF_DIR=%s CARGO_TARGET_DIR=%s %s" % (crate_cwd(crate), VERIF, target_dir(crate), " ".join(cmd)),
    }


BATCH_BLOCK_RE = re.compile(r"Thread (\d+): Checking harness ([^\n]+?)\.\.\.\n")


def run_batch(crate, hs, log_dir, jobs):
    """Fast path: all harnesses of a crate in ONE cargo-kani invocation (`-j`, terse output). A harness that is
    reported SUCCESSFUL with its reach-cover satisfied is final; every other harness (failed, timed out,
    not reported) is re-run on its own by run_harness() for classification and counter-example extraction.
    -> dict name -> result (only for successes)"""
    if not hs:
        return {}
    prefix = crate.get("harness_prefix", "kani_proofs::")
    tmo = max(h.get("timeout", 600) for h in hs)
    mem = max(h.get("mem_gb", 12) for h in hs)
    cmd = ["cargo", "kani"] + KANI_FLAGS[:4] + ["-Z", "unstable-options", "-j", str(jobs), "--output-format", "terse",
                                                "--harness-timeout", "%ds" % tmo, "--exact"] + crate.get("cargo_args", [])
    for h in hs:
        cmd += ["--harness", prefix + h["name"]]
    waves = (len(hs) + jobs - 1) // jobs
    rc, out, secs, to = run(cmd, cwd=crate_cwd(crate), env=env_for(crate), timeout=tmo * waves + 300, mem_gb=mem * 2.5)
    write(os.path.join(log_dir, "%s%s.batch.log" % (crate["unit"], crate.get("unit_suffix", ""))), out)
    # split into per-thread result blocks
    results = {}
    cur = {}   # thread -> harness full name
    pos = 0
    events = []
    for m in BATCH_BLOCK_RE.finditer(out):
        events.append((m.start(), "start", m.group(1), m.group(2).strip()))
    for m in re.finditer(r"Thread (\d+): \n(.*?)(?=\nThread \d+: |\nManual Harness Summary|\Z)", out, re.S):
        events.append((m.start(), "result", m.group(1), m.group(2)))
    events.sort()
    for _, kind, th, payload in events:
        if kind == "start":
            cur[th] = payload
        else:
            full = cur.get(th)
            if not full:
                continue
            name = full[len(prefix):] if full.startswith(prefix) else full
            h = next((x for x in hs if x["name"] == name), None)
            if not h:
                continue
            ok = "VERIFICATION:- SUCCESSFUL" in payload
            mc = re.search(r"\*\* (\d+) of (\d+) cover properties satisfied", payload)
            mf = re.search(r"\*\* (\d+) of (\d+) failed(?: \((\d+) unreachable\))?", payload)
            mt = re.search(r"Verification Time: ([0-9.]+)s", payload)
            if not ok and "VERIFICATION:- FAILED" in payload and "CBMC timed out" in payload:
                results[name] = _batch_result(crate, h, full, "undecided", "timeout (%ds) in batch run" % h.get("timeout", 600), 0, 0, None, [], log_dir)
                continue
            if ok and mc and int(mc.group(1)) >= 1 and mf and int(mf.group(1)) == 0:
                stubs = re.findall(r"Thread %s:\s+- Stub: ([^\n]+)" % th, out)
                results[name] = {
                    "unit": crate["unit"], "harness": name, "full_name": full, "status": "success", "reason": "",
                    "failed_checks": [], "n_checks": int(mf.group(2)), "n_success": int(mf.group(2)),
                    "covers": (int(mc.group(1)), int(mc.group(2))), "wall_s": float(mt.group(1)) if mt else 0.0,
                    "solver_s": float(mt.group(1)) if mt else None, "concrete_vals": None, "stubs": sorted(set(stubs)),
                    "log": os.path.join(log_dir, "%s%s.batch.log" % (crate["unit"], crate.get("unit_suffix", ""))),
                    "replay_dir": replay_dir(crate), "in_crate": crate["mode"] == "in_crate", "repo_crate": crate.get("repo_crate"), "cargo_args": crate.get("cargo_args"),
                    "kind": h.get("kind", "bounded"), "bound": h.get("bound", ""), "props": h.get("props", []),
                    "functions": h.get("functions", crate.get("functions", [])),
                    "cmd": "cd %s && GIX_VERIF_DIR=%s CARGO_TARGET_DIR=%s cargo kani %s --harness %s --exact" % (
                        crate_cwd(crate), VERIF, target_dir(crate), " ".join(KANI_FLAGS[:4]), full),
                }
    # harnesses that were started but never reported (killed by the harness timeout / out of memory): undecided, no re-run
    started = set(cur.values())
    for h in hs:
        full = prefix + h["name"]
        if h["name"] not in results and full in started and to:
            results[h["name"]] = _batch_result(crate, h, full, "undecided", "no result in batch run (timeout)", 0, 0, None, [], log_dir)
    return results


def _batch_result(crate, h, full, status, reason, n_checks, n_success, secs, stubs, log_dir):
    return {
        "unit": crate["unit"], "harness": h["name"], "full_name": full, "status": status, "reason": reason,
        "failed_checks": [], "n_checks": n_checks, "n_success": n_success, "covers": None, "wall_s": secs or 0.0,
        "solver_s": secs, "concrete_vals": None, "stubs": stubs,
        "log": os.path.join(log_dir, "%s%s.batch.log" % (crate["unit"], crate.get("unit_suffix", ""))),
        "replay_dir": replay_dir(crate), "in_crate": crate["mode"] == "in_crate", "repo_crate": crate.get("repo_crate"), "cargo_args": crate.get("cargo_args"),
        "kind": h.get("kind", "bounded"), "bound": h.get("bound", ""), "props": h.get("props", []),
        "functions": h.get("functions", crate.get("functions", [])),
        "cmd": "cd %s && GIX_VERIF_DIR=%s CARGO_TARGET_DIR=%s cargo kani %s --harness %s --exact" % (
            crate_cwd(crate), VERIF, target_dir(crate), " ".join(KANI_FLAGS[:4]), full),
    }
