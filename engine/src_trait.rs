// Input source shared by every Kani harness of /verif.
//
// A harness body is written once, generic over `Src`. Under Kani it is instantiated with `K`
// (every draw is `kani::any()`), natively with `Replay` (draws are the concrete values of a Kani
// counter-example, in call order), so that a counter-example is re-executed against the real code.
// This file is `include!`d into harness crates and into the cfg-guarded hook modules in /repo.

#[allow(dead_code)]
pub trait Src {
    fn u8(&mut self) -> u8;
    fn bool(&mut self) -> bool;
    fn u16(&mut self) -> u16;
    fn u32(&mut self) -> u32;
    fn u64(&mut self) -> u64;
    fn i32(&mut self) -> i32;
    fn i64(&mut self) -> i64;
    fn usize(&mut self) -> usize;
    fn bytes<const N: usize>(&mut self) -> [u8; N] {
        let mut a = [0u8; N];
        let mut i = 0;
        while i < N {
            a[i] = self.u8();
            i += 1;
        }
        a
    }
    /// restrict the explored inputs (kani::assume); natively: abort the replay if violated
    fn assume(&mut self, c: bool);
    /// vacuity guard: must be reachable (kani::cover)
    fn reach(&mut self);
}

#[cfg(kani)]
#[allow(dead_code)]
pub struct K;

#[cfg(kani)]
impl Src for K {
    fn u8(&mut self) -> u8 { kani::any() }
    fn bool(&mut self) -> bool { kani::any() }
    fn u16(&mut self) -> u16 { kani::any() }
    fn u32(&mut self) -> u32 { kani::any() }
    fn u64(&mut self) -> u64 { kani::any() }
    fn i32(&mut self) -> i32 { kani::any() }
    fn i64(&mut self) -> i64 { kani::any() }
    fn usize(&mut self) -> usize { kani::any() }
    fn bytes<const N: usize>(&mut self) -> [u8; N] { kani::any() }
    fn assume(&mut self, c: bool) { kani::assume(c) }
    fn reach(&mut self) { kani::cover!(true, "verif-reach"); }
}

#[cfg(not(kani))]
#[allow(dead_code)]
pub struct Replay {
    vals: std::collections::VecDeque<Vec<u8>>,
    pub reached: bool,
    pub assumes: u32,
}

#[cfg(not(kani))]
#[allow(dead_code)]
impl Replay {
    /// `GIX_VERIF_REPLAY_VALS` = entries separated by ';', each entry comma separated bytes (little endian)
    pub fn from_env() -> (String, Replay) {
        let name = std::env::var("GIX_VERIF_REPLAY_HARNESS").expect("GIX_VERIF_REPLAY_HARNESS");
        let vals = std::env::var("GIX_VERIF_REPLAY_VALS").unwrap_or_default();
        let mut q = std::collections::VecDeque::new();
        for e in vals.split(';') {
            if e.trim().is_empty() { continue; }
            q.push_back(e.split(',').map(|b| b.trim().parse::<u8>().expect("byte")).collect());
        }
        (name, Replay { vals: q, reached: false, assumes: 0 })
    }
    fn next<const N: usize>(&mut self) -> [u8; N] {
        let v = self.vals.pop_front().unwrap_or_else(|| {
            println!("REPLAY-EXHAUSTED: the recorded counter-example has fewer values than the harness draws");
            std::process::exit(3)
        });
        let mut a = [0u8; N];
        let mut i = 0;
        while i < N && i < v.len() { a[i] = v[i]; i += 1; }
        a
    }
}

#[cfg(not(kani))]
impl Src for Replay {
    fn u8(&mut self) -> u8 { self.next::<1>()[0] }
    fn bool(&mut self) -> bool { self.next::<1>()[0] & 1 != 0 }
    fn u16(&mut self) -> u16 { u16::from_le_bytes(self.next()) }
    fn u32(&mut self) -> u32 { u32::from_le_bytes(self.next()) }
    fn u64(&mut self) -> u64 { u64::from_le_bytes(self.next()) }
    fn i32(&mut self) -> i32 { i32::from_le_bytes(self.next()) }
    fn i64(&mut self) -> i64 { i64::from_le_bytes(self.next()) }
    fn usize(&mut self) -> usize { usize::from_le_bytes(self.next()) }
    fn bytes<const N: usize>(&mut self) -> [u8; N] {
        // Kani records an array either as one N-byte value or as N one-byte values
        let mut a = [0u8; N];
        let mut i = 0;
        while i < N {
            let v = self.vals.pop_front().unwrap_or_else(|| {
                println!("REPLAY-EXHAUSTED: the recorded counter-example has fewer values than the harness draws");
                std::process::exit(3)
            });
            for b in v { if i < N { a[i] = b; i += 1; } }
        }
        a
    }
    fn assume(&mut self, c: bool) {
        self.assumes += 1;
        if !c {
            println!("REPLAY-ASSUMPTION-VIOLATED: the recorded values do not satisfy assumption #{} of the harness ({} values left)", self.assumes, self.vals.len());
            std::process::exit(3)
        }
    }
    fn reach(&mut self) { self.reached = true; }
}

/// Declares the Kani proof harnesses of a unit and, for native builds, a dispatcher that runs the
/// same bodies on recorded values.
///   harnesses! { #[kani::proof] #[kani::unwind(6)] glob_3_1 => glob::<3, 1, _>; ... }
#[allow(unused_macros)]
macro_rules! harnesses {
    ($( $(#[$m:meta])* $name:ident => $f:expr; )*) => {
        #[cfg(kani)]
        mod kani_proofs {
            #[allow(unused_imports)]
            use super::*;
            $( $(#[$m])* fn $name() { ($f)(&mut K) } )*
        }
        #[cfg(not(kani))]
        #[allow(dead_code)]
        pub fn replay_dispatch(name: &str, s: &mut Replay) -> bool {
            match name {
                $( stringify!($name) => { ($f)(s); true } )*
                _ => false,
            }
        }
    };
}

/// native re-execution of a Kani counter-example from inside a /repo crate (private functions):
/// `RUSTFLAGS="--cfg gix_verif" cargo test -p <crate> --lib -- gix_verif_replay --nocapture`
#[allow(unused_macros)]
macro_rules! replay_test {
    () => {
        #[cfg(all(test, not(kani)))]
        #[test]
        fn gix_verif_replay() {
            let (name, mut s) = Replay::from_env();
            if replay_dispatch(&name, &mut s) {
                println!("REPLAY-COMPLETED-WITHOUT-FAILURE reached={}", s.reached);
            } else {
                println!("REPLAY-HARNESS-NOT-IN-THIS-MODULE {name}");
            }
        }
    };
}
