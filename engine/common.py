"""Shared helpers for the /verif contract-verification driver."""
import json
import os
import resource
import signal
import subprocess
import time

VERIF = os.path.dirname(os.path.dirname(os.path.abspath(__file__)))
REPO = os.environ.get("GIX_VERIF_REPO", "/repo")
BUILD = os.path.join(VERIF, ".build")
EVIDENCE = os.path.join(VERIF, "evidence")
REPLAYS = os.path.join(VERIF, "replays")
KNOWN_FINDINGS = os.path.join(VERIF, "known-findings.txt")

NCPU = os.cpu_count() or 4


class Undecided(Exception):
    """The machinery could not decide (lost anchor, unsupported construct, timeout, OOM...).
    Maps to exit code 2 -- never to a VIOLATION."""


def base_env():
    env = dict(os.environ)
    env["CARGO_NET_OFFLINE"] = "true"
    env["GIX_VERIF_DIR"] = VERIF
    env.pop("RUSTFLAGS", None)
    return env


def _limit(mem_gb):
    def f():
        os.setsid()
        if mem_gb:
            b = int(mem_gb * (1 << 30))
            resource.setrlimit(resource.RLIMIT_AS, (b, b))
    return f


def run(cmd, cwd=None, env=None, timeout=None, mem_gb=None, stdin=None):
    """Run a command in its own process group under a timeout and an address-space cap.
    Returns (rc, output, seconds, timed_out). stdout and stderr are merged."""
    t0 = time.time()
    p = subprocess.Popen(cmd, cwd=cwd, env=env or base_env(), stdout=subprocess.PIPE,
                         stderr=subprocess.STDOUT, stdin=subprocess.DEVNULL if stdin is None else stdin,
                         preexec_fn=_limit(mem_gb), text=True, errors="replace")
    timed_out = False
    try:
        out, _ = p.communicate(timeout=timeout)
    except subprocess.TimeoutExpired:
        timed_out = True
        try:
            os.killpg(p.pid, signal.SIGKILL)
        except ProcessLookupError:
            pass
        out, _ = p.communicate()
    return p.returncode, out, time.time() - t0, timed_out


def run2(cmd, cwd=None, env=None, timeout=None, mem_gb=None):
    """Like run() but keeps stdout and stderr apart. Returns (rc, stdout, stderr, seconds, timed_out)."""
    t0 = time.time()
    p = subprocess.Popen(cmd, cwd=cwd, env=env or base_env(), stdout=subprocess.PIPE,
                         stderr=subprocess.PIPE, stdin=subprocess.DEVNULL,
                         preexec_fn=_limit(mem_gb), text=True, errors="replace")
    timed_out = False
    try:
        out, err = p.communicate(timeout=timeout)
    except subprocess.TimeoutExpired:
        timed_out = True
        try:
            os.killpg(p.pid, signal.SIGKILL)
        except ProcessLookupError:
            pass
        out, err = p.communicate()
    return p.returncode, out, err, time.time() - t0, timed_out


def read(path):
    with open(path, "r", encoding="utf-8", errors="surrogateescape") as f:
        return f.read()


def write(path, text):
    os.makedirs(os.path.dirname(path), exist_ok=True)
    with open(path, "w", encoding="utf-8", errors="surrogateescape") as f:
        f.write(text)


def write_json(path, obj):
    os.makedirs(os.path.dirname(path), exist_ok=True)
    tmp = path + ".tmp"
    with open(tmp, "w") as f:
        json.dump(obj, f, indent=1, sort_keys=False)
        f.write("\n")
    os.replace(tmp, path)


def load_known_findings():
    """known-findings.txt lines:
         finding: property=<id> key=<substring matched against the violation key> <free text>
         fixed: property=<id> <commit> <free text>      (suppresses nothing)
    """
    res = []
    if not os.path.exists(KNOWN_FINDINGS):
        return res
    for line in read(KNOWN_FINDINGS).splitlines():
        line = line.strip()
        if not line or line.startswith("#"):
            continue
        if line.startswith("finding:"):
            rest = line[len("finding:"):].strip()
            parts = rest.split(None, 2)
            d = {"raw": rest}
            for p in parts[:2]:
                if "=" in p:
                    k, v = p.split("=", 1)
                    d[k] = v
            d["text"] = parts[2] if len(parts) > 2 else ""
            res.append(d)
    return res
