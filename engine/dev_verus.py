#!/usr/bin/env python3
"""dev helper: run the Verus tasks of one unit and print the outcome"""
import sys, os, json, importlib.util
sys.path.insert(0, os.path.dirname(os.path.abspath(__file__)))
import run_verus
unit = sys.argv[1]
only = sys.argv[2] if len(sys.argv) > 2 else None
spec = importlib.util.spec_from_file_location('u', '/verif/contracts/%s/unit.py' % unit); u = importlib.util.module_from_spec(spec); spec.loader.exec_module(u)
for t in u.VERUS:
    if only and only not in t["id"]: continue
    r = run_verus.run_task(t, '/verif/.build/logs')
    print(json.dumps({k: v for k, v in r.items() if k not in ('extraction', 'verus_output', 'function_breakdown')}, indent=1))
    if r['status'] != 'success': print(r['verus_output'][-5000:])
