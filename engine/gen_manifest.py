#!/usr/bin/env python3
"""Writes /verif/MANIFEST.json from engine/props.py (run after changing props.py)."""
import json, os, subprocess, sys
sys.path.insert(0, os.path.dirname(os.path.abspath(__file__)))
import props

VERIF = os.path.dirname(os.path.dirname(os.path.abspath(__file__)))
checks = []
na = []
for pid in props.ALL_IDS:
    p = props.PROPS.get(pid)
    if p and p.get("built"):
        checks.append({
            "property_id": pid,
            "quick_cmd": "./check %s --tier quick" % pid,
            "thorough_cmd": "./check %s --tier thorough" % pid,
            "evidence_file": "/verif/evidence/%s.json" % pid,
            "replay_cmd_template": "./check %s --replay {path}" % pid,
            "engine": "contracts",
            "level_claimed": {"category": p["category"], "text": p["text"], "design_ref": p["design_ref"]},
            "level_note": p["note"],
            "technique": p["technique"],
        })
    elif pid in props.NOT_APPLICABLE:
        na.append({"property_id": pid, "reason": props.NOT_APPLICABLE[pid]})
    else:
        na.append({"property_id": pid, "reason": props.UNDER_CONSTRUCTION})
try:
    hooks = subprocess.check_output(["git", "-C", "/repo", "log", "--format=%H %s", "--grep=^verif hook"], text=True).strip().splitlines()
except Exception:
    hooks = []
m = {
    "version": 1,
    "setup_cmd": "./setup.sh",
    "hooks": {
        "guard": "cfg(any(kani, gix_verif))",
        "enable": "cargo kani sets cfg(kani) (proof harnesses, and the one `cfg_attr(kani, kani::ensures(..))` contract attribute on gix_date::Time::size); native replay of a counter-example builds with RUSTFLAGS='--cfg gix_verif'; both need GIX_VERIF_DIR=/verif in the environment (set by ./check). With neither cfg set the hook modules are stripped before macro expansion.",
        "baseline_off_cmd": "cd /repo && (cargo nextest run --workspace --no-fail-fast --tool-config-file pb:/w/lib/nextest.toml --profile pb --test-threads 8 --offline || cargo test --workspace --no-fail-fast --offline)",
        "source_commits": [h.split()[0] for h in hooks],
        "add_only": True,
    },
    "engines": [{
        "name": "contracts", "path": "/verif/check",
        "serves_properties": [c["property_id"] for c in checks],
        "kind_free_text": "contract-based deductive verification: Verus on functions re-extracted from /repo on every run (engine/extract.py) and Kani contracts / full-domain / bounded harnesses on the real crates (contracts/*/), counter-examples replayed natively (engine/replay.py)",
    }],
    "checks": checks,
    "notes": "One technique family only (contracts + deductive verifier). Exit codes of ./check: 0 held, 1 violation (VIOLATION line), 2 undecided (lost anchor, unsupported construct, timeout, out of memory) -- never reported as a violation. Bounded Kani harnesses are labelled bounded in the evidence and never counted as proved. See DESIGN.md.",
    "not_applicable": na,
}
with open(os.path.join(VERIF, "MANIFEST.json"), "w") as f:
    json.dump(m, f, indent=1)
    f.write("\n")
print("checks:", [c["property_id"] for c in checks], "not_applicable:", len(na))
