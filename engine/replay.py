"""Turn a failed obligation into a replay file and (for Kani counter-examples) re-execute the
harness body natively, on the real crates, with the recorded values."""
import json
import os
import re
import shutil
import time

from common import BUILD, REPLAYS, REPO, VERIF, base_env, run, write_json


def native_replay(replay_dir, harness, vals, in_crate, timeout=1800, repo_crate=None, cargo_args=None):
    """Re-execute the harness body natively with the recorded values.
    external harness crate: `cargo run` in the crate (its main() is the replay runner);
    in-crate hook: the crate's lib test `gix_verif_replay`, built with --cfg gix_verif.
    -> dict(reproduced: bool|None, output: str)"""
    env = base_env()
    env["GIX_VERIF_REPLAY_HARNESS"] = harness
    env["GIX_VERIF_REPLAY_VALS"] = ";".join(",".join(str(b) for b in v) for v in vals)
    if in_crate:
        env["RUSTFLAGS"] = "--cfg gix_verif"
        env["CARGO_TARGET_DIR"] = os.path.join(BUILD, "native", "in-crate")
        cmd = ["cargo", "test", "--offline", "--manifest-path", os.path.join(REPO, repo_crate, "Cargo.toml"), "--lib"] + list(cargo_args or []) + ["--", "gix_verif_replay", "--nocapture", "--test-threads", "1"]
        cwd = REPO
    else:
        env["CARGO_TARGET_DIR"] = os.path.join(BUILD, "native", os.path.basename(os.path.dirname(replay_dir.rstrip("/"))))
        shutil.copyfile(os.path.join(REPO, "Cargo.lock"), os.path.join(replay_dir, "Cargo.lock"))
        cmd = ["cargo", "run", "--quiet", "--offline"]
        cwd = replay_dir
    rc, out, secs, to = run(cmd, cwd=cwd, env=env, timeout=timeout)
    tail = out[-3000:]
    res = {"cmd": "cd %s && GIX_VERIF_DIR=%s GIX_VERIF_REPLAY_HARNESS=%s GIX_VERIF_REPLAY_VALS='%s' %s%s" % (
        cwd, VERIF, harness, env["GIX_VERIF_REPLAY_VALS"], "RUSTFLAGS='--cfg gix_verif' " if in_crate else "", " ".join(cmd))}
    if to:
        res.update({"reproduced": None, "output": "native replay timed out\n" + tail})
    elif "panicked at" in out:
        m = re.search(r"panicked at ([^\n]*)\n([^\n]*)", out)
        res.update({"reproduced": True, "panic": (m.group(1) + " :: " + m.group(2)) if m else "", "output": tail})
    elif "REPLAY-COMPLETED-WITHOUT-FAILURE" in out:
        res.update({"reproduced": False, "output": tail})
    elif "error: could not compile" in out or "error[E" in out:
        res.update({"reproduced": None, "output": "native replay does not compile\n" + tail})
    else:
        res.update({"reproduced": None, "output": tail})
    return res


def handle_violation(prop, r, units):
    os.makedirs(os.path.join(REPLAYS, prop), exist_ok=True)
    stamp = time.strftime("%Y%m%d-%H%M%S")
    if r["backend"] == "kani":
        name = "%s.%s" % (r["unit"], r["harness"])
        path = os.path.join(REPLAYS, prop, "%s.%s.json" % (name, stamp))
        doc = {"property": prop, "backend": "kani", "unit": r["unit"], "harness": r["harness"],
               "failed_obligations": [{"check": c["name"], "description": c["description"], "location": c["location"]} for c in r["failed_checks"]],
               "concrete_vals": r.get("concrete_vals"), "kani_cmd": r.get("cmd"), "kani_log": r.get("log"),
               "replay_dir": r.get("replay_dir"), "in_crate": r.get("in_crate", False), "repo_crate": r.get("repo_crate"), "cargo_args": r.get("cargo_args")}
        suffix = ""
        if r.get("concrete_vals") is not None and r.get("replay_dir"):
            nr = native_replay(r["replay_dir"], r["harness"], r["concrete_vals"], r.get("in_crate", False), repo_crate=r.get("repo_crate"), cargo_args=r.get("cargo_args"))
            doc["native_replay"] = nr
            if nr["reproduced"] is True:
                doc["verdict"] = "counter-example reproduced natively against the real code: " + nr.get("panic", "")
            elif nr["reproduced"] is False:
                # The recorded values satisfy the harness' assumptions but the native run completes. Kani's value extraction is
                # known to drop values (observed: all-zero values for a real `expect()` failure in gix-bitmap), so this counts as
                # "the verifier gave no usable counter-example": the named obligation passed on the unchanged tree and fails now.
                doc["verdict"] = "Kani check failed; its recorded values do not trigger the failure natively (value extraction incomplete): obligation reported without a failing input"
                suffix = " no-failing-input-found"
            elif "REPLAY-ASSUMPTION-VIOLATED" in nr.get("output", ""):
                doc["verdict"] = "NOT REPRODUCED: the values of Kani's counter-example do not satisfy the harness' own assumptions when executed natively (verifier imprecision)"
                write_json(path, doc)
                return "UNDECIDED property=%s replay=%s" % (prop, path), "not-reproduced"
            else:
                doc["verdict"] = "Kani check failed; native replay inconclusive (replay infrastructure problem, see output)"
        else:
            doc["verdict"] = "Kani check failed; no concrete values were produced by the verifier"
            suffix = " no-failing-input-found"
        write_json(path, doc)
        return "VIOLATION property=%s replay=%s%s" % (prop, path, suffix), "violation"
    # verus
    path = os.path.join(REPLAYS, prop, "%s.%s.json" % (r["task"], stamp))
    doc = {"property": prop, "backend": "verus", "task": r["task"], "failed_obligations": r["failed_obligations"],
           "generated_file": r.get("generated_file"), "verus_cmd": r.get("cmd"), "verifier_output": r.get("verus_output"),
           "verdict": "proof obligation failed on the code extracted from the current tree; Verus gives no counter-example"}
    write_json(path, doc)
    return "VIOLATION property=%s replay=%s no-failing-input-found" % (prop, path), "violation"


def replay_file(path):
    d = json.load(open(path))
    if d.get("backend") == "kani" and d.get("concrete_vals") is not None and d.get("replay_dir"):
        nr = native_replay(d["replay_dir"], d["harness"], d["concrete_vals"], d.get("in_crate", False), repo_crate=d.get("repo_crate"), cargo_args=d.get("cargo_args"))
        print(nr["output"])
        if nr["reproduced"] is True:
            print("REPRODUCED property=%s harness=%s: %s" % (d["property"], d["harness"], nr.get("panic", "")))
            return 1
        print("NOT-REPRODUCED property=%s harness=%s" % (d["property"], d["harness"]))
        return 0
    print(json.dumps(d.get("failed_obligations"), indent=1))
    print(d.get("verifier_output", ""))
    print("This replay file names a failed proof obligation; re-run the check to re-establish it: ./check %s" % d["property"])
    return 1
