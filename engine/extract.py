"""Mechanical extractor: /repo source -> single-file Verus input.

The body of each function under contract is copied VERBATIM from /repo's current working tree on
every run. The only things done to it are
  * declared textual rewrites (rule id, regex, replacement, expected match count) -- DESIGN.md 3.3,
  * removal of debug-only macro calls (rule R3),
  * pure insertions: contract after the signature, `invariant/decreases` in front of the body of
    loop k (ordinal in source order), proof blocks before/after a literal anchor.
If a function, loop ordinal or anchor cannot be found, or a rewrite matches a different number of
times than declared, `Undecided` is raised (exit 2, "anchor lost") -- never a violation.
"""
import hashlib
import os
import re

from common import REPO, Undecided, read


def code_mask(src):
    """mask[i] is True where src[i] is code (not inside a comment, string or char literal)."""
    n = len(src)
    mask = [True] * n
    i = 0
    while i < n:
        c = src[i]
        if c == '/' and i + 1 < n and src[i + 1] == '/':
            j = src.find('\n', i)
            j = n if j < 0 else j
            for k in range(i, j):
                mask[k] = False
            i = j
        elif c == '/' and i + 1 < n and src[i + 1] == '*':
            depth, j = 1, i + 2
            while j < n and depth:
                if src.startswith('/*', j):
                    depth += 1
                    j += 2
                elif src.startswith('*/', j):
                    depth -= 1
                    j += 2
                else:
                    j += 1
            for k in range(i, j):
                mask[k] = False
            i = j
        elif c == '"' or (c in 'rb' and re.match(r'(?:b?r#*"|b")', src[i:i + 12]) and (i == 0 or not (src[i - 1].isalnum() or src[i - 1] == '_'))):
            m = re.match(r'(b?r(#*)")|(b?")', src[i:])
            if m.group(1):
                hashes = m.group(2)
                end = src.find('"' + hashes, i + len(m.group(1)))
                j = n if end < 0 else end + 1 + len(hashes)
            else:
                j = i + len(m.group(0))
                while j < n and src[j] != '"':
                    j += 2 if src[j] == '\\' else 1
                j += 1
            for k in range(i, min(j, n)):
                mask[k] = False
            i = j
        elif c == "'":
            # char literal or lifetime
            m = re.match(r"'(?:\\(?:x[0-9a-fA-F]{2}|u\{[0-9a-fA-F_]+\}|.)|[^\\'])'", src[i:])
            if m:
                for k in range(i, i + len(m.group(0))):
                    mask[k] = False
                i += len(m.group(0))
            else:
                i += 1
        else:
            i += 1
    return mask


def match_brace(src, mask, open_pos):
    assert src[open_pos] == '{'
    depth = 0
    for i in range(open_pos, len(src)):
        if not mask[i]:
            continue
        if src[i] == '{':
            depth += 1
        elif src[i] == '}':
            depth -= 1
            if depth == 0:
                return i
    raise Undecided("unbalanced braces")


def find_code(src, mask, regex, start=0, end=None):
    """all regex matches that start at a code position"""
    end = len(src) if end is None else end
    return [m for m in re.finditer(regex, src[:end]) if m.start() >= start and mask[m.start()]]


def locate_fn(src, mask, fn_name, within=None, nth=1):
    """-> (sig_start, body_open, body_close). `within`: regex of an enclosing item header (e.g. r'impl\\s+Time\\b')."""
    lo, hi = 0, len(src)
    if within:
        ms = find_code(src, mask, within)
        if not ms:
            raise Undecided("anchor lost: enclosing item /%s/ not found" % within)
        found = None
        for m in ms:
            ob = src.find('{', m.end())
            while ob >= 0 and not mask[ob]:
                ob = src.find('{', ob + 1)
            if ob < 0:
                continue
            cb = match_brace(src, mask, ob)
            if find_code(src, mask, r'\bfn\s+%s\b' % re.escape(fn_name), ob, cb):
                found = (ob, cb)
                break
        if not found:
            raise Undecided("anchor lost: fn %s not found within /%s/" % (fn_name, within))
        lo, hi = found
    ms = find_code(src, mask, r'\bfn\s+%s\b' % re.escape(fn_name), lo, hi)
    if len(ms) < nth:
        raise Undecided("anchor lost: fn %s not found" % fn_name)
    m = ms[nth - 1]
    # signature start: go back over qualifiers (pub, pub(crate), const, unsafe, async)
    line_start = src.rfind('\n', 0, m.start()) + 1
    sig_start = line_start + (len(src[line_start:m.start()]) - len(src[line_start:m.start()].lstrip()))
    # body open: first code '{' after the fn at paren/bracket depth 0
    depth = 0
    i = m.end()
    while i < hi:
        if mask[i]:
            ch = src[i]
            if ch in '([':
                depth += 1
            elif ch in ')]':
                depth -= 1
            elif ch == '{' and depth == 0:
                break
            elif ch == ';' and depth == 0:
                raise Undecided("fn %s has no body" % fn_name)
        i += 1
    body_open = i
    body_close = match_brace(src, mask, body_open)
    return sig_start, body_open, body_close


def norm_ws(s):
    return re.sub(r'\s+', ' ', s).strip()


def find_loops(body, mask):
    """offsets (into body) of the '{' opening the body of each while/loop/for, in source order"""
    res = []
    for m in find_code(body, mask, r'(?<![A-Za-z0-9_])(while|loop|for)(?![A-Za-z0-9_])'):
        depth = 0
        i = m.end()
        while i < len(body):
            if mask[i]:
                ch = body[i]
                if ch in '([':
                    depth += 1
                elif ch in ')]':
                    depth -= 1
                elif ch == '{' and depth == 0:
                    break
            i += 1
        if i < len(body):
            res.append((m.group(1), m.start(), i))
    return res


def strip_macro_calls(body, mask, names, log):
    """R3: remove `name!( ... );` statements. Returns new body (mask is recomputed by the caller)."""
    out = body
    for name in names:
        while True:
            mk = code_mask(out)
            ms = find_code(out, mk, r'(?<![A-Za-z0-9_])%s!\s*\(' % re.escape(name))
            if not ms:
                break
            m = ms[0]
            depth = 0
            i = m.end() - 1
            while i < len(out):
                if mk[i]:
                    if out[i] == '(':
                        depth += 1
                    elif out[i] == ')':
                        depth -= 1
                        if depth == 0:
                            break
                i += 1
            j = i + 1
            while j < len(out) and out[j] in ' \t':
                j += 1
            if j < len(out) and out[j] == ';':
                j += 1
            log.append({"rule": "R3", "dropped": norm_ws(out[m.start():j])})
            out = out[:m.start()] + "/* R3: debug-only check removed */" + out[j:]
    return out


def extract_function(spec, log):
    """spec keys: file, fn, within?, nth?, orig_sig (normalised expected source signature),
    new_sig, requires?, ensures?, strip_macros?, rewrites? [(rule, regex, repl, count)],
    loops? {ordinal: text}, inserts? [{"after"|"before": literal, "nth": 1, "text": ...}],
    entry? text inserted at function entry.
    -> (verus_text, meta)"""
    path = os.path.join(REPO, spec["file"])
    if not os.path.exists(path):
        raise Undecided("anchor lost: %s does not exist" % spec["file"])
    src = read(path)
    mask = code_mask(src)
    if "orig_sig" in spec and "nth" not in spec:
        # several functions may share the name: pick the one whose signature is the expected one
        k, found, seen = 1, None, []
        while True:
            try:
                sig_start, bo, bc = locate_fn(src, mask, spec["fn"], spec.get("within"), k)
            except Undecided:
                break
            seen.append(norm_ws(src[sig_start:bo]))
            if seen[-1] == norm_ws(spec["orig_sig"]):
                found = (sig_start, bo, bc)
                break
            k += 1
        if not found:
            raise Undecided("anchor lost: no fn %s with signature `%s` in %s (found: %s)" % (spec["fn"], norm_ws(spec["orig_sig"]), spec["file"], " || ".join(seen)))
        sig_start, bo, bc = found
    else:
        sig_start, bo, bc = locate_fn(src, mask, spec["fn"], spec.get("within"), spec.get("nth", 1))
    orig_sig = norm_ws(src[sig_start:bo])
    if "orig_sig" in spec and norm_ws(spec["orig_sig"]) != orig_sig:
        raise Undecided("anchor lost: signature of %s changed: expected `%s`, found `%s`" % (spec["fn"], norm_ws(spec["orig_sig"]), orig_sig))
    body = src[bo + 1:bc]
    first_line = src.count('\n', 0, bo + 1) + 1
    body_hash = hashlib.sha256(body.encode("utf-8", "surrogateescape")).hexdigest()
    fnlog = []
    if spec.get("strip_macros"):
        body = strip_macro_calls(body, None, spec["strip_macros"], fnlog)
    bmask = code_mask(body)
    # ---- insertion points on the (macro-stripped) verbatim body
    ins = []  # (offset, text)
    if spec.get("entry"):
        ins.append((0, "\n" + spec["entry"] + "\n"))
    loops = find_loops(body, bmask)
    for k, text in (spec.get("loops") or {}).items():
        k = int(k)
        if k > len(loops):
            raise Undecided("anchor lost: loop %d of %s not found (%d loops)" % (k, spec["fn"], len(loops)))
        ins.append((loops[k - 1][2], "\n" + text + "\n"))
    if spec.get("expect_loops") is not None and len(loops) != spec["expect_loops"]:
        raise Undecided("anchor lost: %s has %d loops, contract file expects %d" % (spec["fn"], len(loops), spec["expect_loops"]))
    for it in spec.get("inserts") or []:
        lit = it.get("after") or it.get("before")
        occ = [m.start() for m in re.finditer(re.escape(lit), body) if bmask[m.start()]]
        nth = it.get("nth", 1)
        if len(occ) < nth or (it.get("unique", True) and len(occ) != it.get("count", 1)):
            raise Undecided("anchor lost: `%s` occurs %d times in %s" % (lit, len(occ), spec["fn"]))
        pos = occ[nth - 1]
        if "after" in it:
            ins.append((pos + len(lit), "\n" + it["text"] + "\n"))
        else:
            ins.append((pos, "\n" + it["text"] + "\n"))
    # ---- build segments
    ins.sort(key=lambda x: x[0])
    segs = []
    last = 0
    for off, text in ins:
        segs.append([body[last:off], True])
        segs.append([text, False])
        last = off
    segs.append([body[last:], True])
    # ---- declared rewrites on original segments only
    for (rule, rx, repl, count) in spec.get("rewrites") or []:
        total = 0
        for s in segs:
            if s[1]:
                s[0], n = re.subn(rx, repl, s[0])
                total += n
        if total != count:
            raise Undecided("anchor lost: rewrite %s /%s/ matched %d times in %s, declared %d" % (rule, rx, total, spec["fn"], count))
        fnlog.append({"rule": rule, "regex": rx, "replacement": repl, "matches": total})
    new_body = "".join(s[0] for s in segs)
    contract = ""
    if spec.get("requires"):
        contract += "    requires\n" + spec["requires"].rstrip().rstrip(",") + ",\n"
    if spec.get("ensures"):
        contract += "    ensures\n" + spec["ensures"].rstrip().rstrip(",") + ",\n"
    if spec.get("fn_decreases"):
        contract += "    decreases " + spec["fn_decreases"] + ",\n"
    text = "// ---- extracted from %s:%d fn %s (sha256 of body %s)\n%s\n%s{%s}\n" % (
        spec["file"], first_line, spec["fn"], body_hash[:16], spec["new_sig"], contract, new_body)
    meta = {"file": spec["file"], "fn": spec["fn"], "first_line": first_line, "orig_sig": orig_sig,
            "body_sha256": body_hash, "rules": fnlog, "n_loops": len(loops)}
    log.append(meta)
    return text, meta


def extract_item(spec, log):
    """copy a type definition (enum/struct/const) verbatim, dropping attributes and doc comments (R5/R7)"""
    path = os.path.join(REPO, spec["file"])
    src = read(path)
    mask = code_mask(src)
    ms = find_code(src, mask, spec["item"])
    if "nth" in spec:
        if len(ms) < spec["nth"] or len(ms) != spec.get("count", len(ms)):
            raise Undecided("anchor lost: item /%s/ found %d times in %s" % (spec["item"], len(ms), spec["file"]))
        m = ms[spec["nth"] - 1]
    elif len(ms) != 1:
        raise Undecided("anchor lost: item /%s/ found %d times in %s" % (spec["item"], len(ms), spec["file"]))
    else:
        m = ms[0]
    if spec.get("until") == ";":
        end = src.find(';', m.end())
        text = src[m.start():end + 1]
    else:
        ob = src.find('{', m.end() - 1)
        cb = match_brace(src, mask, ob)
        text = src[m.start():cb + 1]
    # R5/R7: drop attributes and doc comments inside
    dropped = []
    def drop(mm):
        dropped.append(norm_ws(mm.group(0)))
        return ""
    text = re.sub(r'(?m)^\s*///[^\n]*\n', drop, text)
    text = re.sub(r'(?ms)^\s*#\[(?:[^\[\]]|\[[^\]]*\])*\]\s*\n', drop, text)
    for (rule, rx, repl, count) in spec.get("rewrites") or []:
        text, n = re.subn(rx, repl, text)
        if n != count:
            raise Undecided("anchor lost: rewrite %s /%s/ matched %d times in item /%s/, declared %d" % (rule, rx, n, spec["item"], count))
    log.append({"file": spec["file"], "item": spec["item"], "rules": [{"rule": "R5/R7", "dropped": dropped}]})
    return "// ---- extracted item from %s\n%s\n" % (spec["file"], text)
