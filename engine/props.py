"""Per-property registration data (source of MANIFEST.json; see engine/gen_manifest.py)."""

TECH = "contract-based deductive verification of the real code: "

# built=True -> listed under MANIFEST.checks
PROPS = {
    "C05": {
        "built": True, "category": "proof", "design_ref": "DESIGN.md section 5, C05",
        "technique": TECH + "Kani full-domain harnesses (loops bounded by 40 nibbles, unwinding assertions on) over the real gix-hash crate; hex dependency under a checked-then-assumed contract",
        "text": "Complete proof for all 2^160 ids, all hex_len and all 4..=40-digit hex strings (one harness per digit count) that Prefix::new/cmp_oid/from_hex/From<ObjectId>, hex_to_buf and ObjectId::from_hex satisfy the nibble-level specification; the per-byte behaviour of the faster-hex dependency is checked for 1- and 2-byte inputs and assumed beyond.",
        "note": "Trusted: Kani/CBMC; faster_hex per-byte contract HEXC beyond 2 bytes and its SIMD paths; fmt::Formatter plumbing of Display.",
        "trusted_base": ["faster-hex dependency contract HEXC (checked for 1-2 bytes, assumed beyond; SIMD paths unverified)"],
    },
    "C09": {
        "built": True, "category": "other", "design_ref": "DESIGN.md section 5, C09",
        "technique": TECH + "Verus proof of the extracted gix_pack::index::access::lookup against a linear-scan contract (any table length); Kani bounded harnesses for fan-out construction and prefix lookup",
        "text": "Full-id lookup (shared by pack index and multi-pack index) is PROVED for tables of any length < 2^31: Some(i) => ids[i]==id, None => id absent, given a sorted table and a fan-out table that counts first bytes. Fan-out construction and prefix lookup are BOUNDED Kani stand-ins (table sizes stated in the evidence). Offset/CRC retrieval from the mmap'ed file is undecided.",
        "note": "Trusted: model of gix_hash::oid (20 bytes, cmp = lexicographic), accessor oid_at_index(i) = i-th id of the table, table length < 2^31 (u32 midpoint arithmetic), Verus/Z3, Kani/CBMC.",
        "trusted_base": ["prelude model of gix_hash::oid and its cmp/first_byte", "rewrite R2: oid_at_index(i) is the i-th id"],
    },
    "C14": {
        "built": True, "category": "other", "design_ref": "DESIGN.md section 5, C14",
        "technique": TECH + "Verus proof of the extracted gix_commitgraph::File::lookup_inner against a linear-scan contract",
        "text": "Only the clause 'every commit in the graph is found by its id (and nothing else is)' is decided: PROVED for commit tables of any length < 2^31. Parents / root tree / time / generation versus commit objects and chain translation are undecided (oracle is git's writer and the object database).",
        "note": "Trusted: model of gix_hash::oid, File::id_at(i) = i-th id, Verus/Z3. One clause of the property only.",
        "trusted_base": ["prelude model of gix_hash::oid and its cmp/first_byte", "rewrite R2: id_at(Position(i)) is the i-th id"],
    },
    "C32": {
        "built": True, "category": "other", "design_ref": "DESIGN.md section 5, C32",
        "technique": TECH + "Kani bounded harnesses inside gix-refspec (cfg-guarded hook) on Needle::matches / to_bstr_replace against git's match_name_with_pattern rule",
        "text": "BOUNDED: for every pattern/item/destination of the stated byte lengths the glob decision, the substituted range and the produced destination equal git's documented rule, and no panic occurs. Negative specs, partial names, object ids and MatchGroup orchestration are undecided.",
        "note": "Bounded stand-in (lengths in evidence); trusted: Kani/CBMC, bstr helpers executed bit-precisely.",
        "trusted_base": [],
    },
}

NOT_APPLICABLE = {
    "C02": "oracle is objects produced by the git binary; winnow combinator decoders are outside Verus' subset and beyond CBMC at realistic object sizes; no contract short of 'equals git' states the property",
    "C04": "history property over HashMap<BString, Tree> + object-database callbacks (dyn FindExt); Verus cannot take the code, CBMC cannot take HashMap at useful bounds; ghost-state contracts would be a re-implementation",
    "C08": "composition of zlib inflation, delta chains and clru/hashbrown/Arc caches under arbitrary request histories; no function-local contract carries it",
    "C10": "oracle is git index-pack; pipeline is threads + zlib + tempfiles",
    "C11": "file system + zlib + rename; the contract-sized piece (loose header) is covered under C01",
    "C12": "schedules x file-system histories over ArcSwap/atomics; Kani has no threads, Verus would need a rewrite onto its permission types (a model)",
    "C13": "relative-path resolution and cycle detection go through realpath / the file system",
    "C16": "history over lock files and loose/packed refs on a real file system; no verifier here models the OS",
    "C17": "liveness / bounded-time claim under lock contention; not expressible as a function contract",
    "C18": "oracle is git for-each-ref over file-system state",
    "C19": "binary_search_by over bytes with raw-pointer record-start arithmetic inside a closure plus winnow parsing: outside Verus' subset; Kani needs >=3 records (~130 symbolic bytes) through combinators; extracting only the arithmetic would be a model",
    "C20": "crash points of a file system",
    "C21": "Reverse::next is generic over Read+Seek, recursive and yields winnow-parsed lines; unreachable for Verus, for Kani only with concrete content (= a test)",
    "C22": "exclusivity is OS behaviour; the naming clause goes through Path::with_extension + format! + to_string_lossy which CBMC does not get through (measured) and Verus treats as opaque",
    "C23": "signals and processes",
    "C26": "winnow event-stream parser over Cow<BStr>; serialize(parse(x))==x needs an inductive invariant through every combinator",
    "C27": "oracle is git config",
    "C28": "history over event vectors of the winnow parser",
    "C30": "oracle is a live git upload-pack",
    "C31": "whole-system property with git as oracle",
    "C33": "parsing goes through the url crate and percent-decoding over Strings; no contract short of the whole grammar",
    "C35": "measured: Context::write_to with one 1-byte value exhausts 15 GB in CBMC (String, io::Error::new, thiserror); Verus rejects the str reasoning in validate",
    "C36": "the only specification is git's wildmatch.c; proving equivalence of two recursive matchers is program equivalence, not a contract",
    "C37": "oracle is git check-ignore over directory trees and configuration",
    "C38": "oracle is git check-attr",
    "C39": "oracle is git ls-files with pathspecs",
    "C41": "file system, symlinks, git as oracle",
    "C42": "ghost invariant over histories of make_relative_path_current; &mut dyn Delegate, Peekable<Components>, Path/PathBuf are opaque to Verus; Kani does not finish even two concrete paths (std::path::Components)",
    "C43": "oracle is git hash-object/checkout across the attribute x config matrix",
    "C44": "oracle is git diff-tree; object database callbacks",
    "C45": "built on the imara-diff dependency and Vec<Hunk> manipulation; identities need the diff algorithm's own contract",
    "C46": "paint-down-to-common over PriorityQueue + hash maps with git as oracle; research-size invariant",
    "C47": "oracle is git rev-list over an object database",
    "C48": "oracle is git rev-parse",
    "C49": "file-system walk with git status as oracle",
    "C50": "file-system discovery with git as oracle",
    "C51": "schedule-quantified; Kani has no threads; the sequential InOrderIter clause did not finish for 2 items (BTreeMap)",
    "C52": "all formats but Raw go through jiff; Raw is itoa + str::parse::<i64> (64-bit division, UTF-8 iterators: no CBMC result in 15 min)",
    "C53": "oracle is git check-mailmap",
    "C54": "object database with deletions as oracle",
    "C55": "oracle is git archive and the tar/zip crates",
    "C56": "zlib and SHA-1 are external crates; the property is about their streaming semantics",
}

UNDER_CONSTRUCTION = "claimed in DESIGN.md; the check is still being built in this round and is not registered yet"
ALL_IDS = ["C%02d" % i for i in range(1, 58)]
