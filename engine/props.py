"""Per-property registration data (source of MANIFEST.json; see engine/gen_manifest.py)."""

TECH = "contract-based deductive verification of the real code: "

# built=True -> listed under MANIFEST.checks
PROPS = {
    "C05": {
        "built": True, "category": "proof", "design_ref": "DESIGN.md section 5, C05",
        "technique": TECH + "Kani full-domain harnesses (loops bounded by 40 nibbles, unwinding assertions on) over the real gix-hash crate; hex dependency under a checked-then-assumed contract",
        "text": "Complete proof for all 2^160 ids, all hex_len and all 4..=40-digit hex strings (one harness per digit count) that Prefix::new/cmp_oid/from_hex/From<ObjectId>, hex_to_buf and ObjectId::from_hex satisfy the nibble-level specification; the per-byte behaviour of the faster-hex dependency is checked for 1- and 2-byte inputs and assumed beyond.",
        "note": "Trusted: Kani/CBMC; faster_hex per-byte contract HEXC beyond 2 bytes and its SIMD paths; fmt::Formatter plumbing of Display.",
        "trusted_base": ["faster-hex dependency contract HEXC (checked for 1-2 bytes, assumed beyond; SIMD paths unverified)"],
    },
    "C09": {
        "built": True, "category": "other", "design_ref": "DESIGN.md section 5, C09",
        "technique": TECH + "Verus proof of the extracted gix_pack::index::access::lookup against a linear-scan contract (any table length); Kani bounded harnesses for fan-out construction and prefix lookup",
        "text": "Full-id lookup (shared by pack index and multi-pack index) is PROVED for tables of any length < 2^31: Some(i) => ids[i]==id, None => id absent, given a sorted table and a fan-out table that counts first bytes. Fan-out construction and prefix lookup are BOUNDED Kani stand-ins (table sizes stated in the evidence). Offset/CRC retrieval from the mmap'ed file is undecided.",
        "note": "Trusted: model of gix_hash::oid (20 bytes, cmp = lexicographic), accessor oid_at_index(i) = i-th id of the table, table length < 2^31 (u32 midpoint arithmetic), Verus/Z3, Kani/CBMC.",
        "trusted_base": ["prelude model of gix_hash::oid and its cmp/first_byte", "rewrite R2: oid_at_index(i) is the i-th id"],
    },
    "C14": {
        "built": True, "category": "other", "design_ref": "DESIGN.md section 5, C14",
        "technique": TECH + "Verus proof of the extracted gix_commitgraph::File::lookup_inner against a linear-scan contract",
        "text": "Only the clause 'every commit in the graph is found by its id (and nothing else is)' is decided: PROVED for commit tables of any length < 2^31. Parents / root tree / time / generation versus commit objects and chain translation are undecided (oracle is git's writer and the object database).",
        "note": "Trusted: model of gix_hash::oid, File::id_at(i) = i-th id, Verus/Z3. One clause of the property only.",
        "trusted_base": ["prelude model of gix_hash::oid and its cmp/first_byte", "rewrite R2: id_at(Position(i)) is the i-th id"],
    },
    "C32": {
        "built": True, "category": "other", "design_ref": "DESIGN.md section 5, C32",
        "technique": TECH + "Kani bounded harnesses inside gix-refspec (cfg-guarded hook) on Needle::matches / to_bstr_replace against git's match_name_with_pattern rule",
        "text": "BOUNDED: for every pattern/item/destination of the stated byte lengths the glob decision, the substituted range and the produced destination equal git's documented rule, and no panic occurs. Negative specs, partial names, object ids and MatchGroup orchestration are undecided.",
        "note": "Bounded stand-in (lengths in evidence); trusted: Kani/CBMC, bstr helpers executed bit-precisely.",
        "trusted_base": [],
    },
}


PROPS.update({
    "C01": {
        "built": True, "category": "other", "design_ref": "DESIGN.md section 5, C01",
        "technique": TECH + "Kani function contract placed on the real Time::size (proof_for_contract, all i64) + Verus proof of the extracted digit ladder; bounded Kani harnesses for Time::write_to, tree size()/write_to() and the loose header",
        "text": "PROVED for every i64 timestamp: Time::size() equals the decimal length of the seconds plus 6 (two independent back ends: Kani contract in place, Verus on the extracted ladder); every u16 tree mode renders to octal text that parses back. BOUNDED: Time::write_to writes size() bytes and refuses exactly offsets >= 100h (every offset for fixed seconds, 44 digit-boundary seconds for fixed offsets); Tree/TreeRef size()==bytes written and re-decoding for 1-2 entries; loose header text and its decoder for sizes < 2^16. Commit/tag size accounting, decoding commits/tags back, and the id (SHA-1) are undecided.",
        "note": "Trusted: itoa renders dec_len(n) bytes for 64-bit values (exercised at 44 boundaries only), SHA-1/zlib, Kani/CBMC, Verus/Z3; io::Error conversions stubbed in tree harnesses.",
        "trusted_base": ["itoa 64-bit digit count (dependency contract, exercised at boundaries)", "SHA-1"],
    },
    "C03": {
        "built": True, "category": "other", "design_ref": "DESIGN.md section 5, C03",
        "technique": TECH + "Kani bounded harnesses inside gix-object on Ord for tree::Entry/EntryRef, editor::cmp_entry_with_name and TreeRef::bisect_entry against git's documented tree order; full-domain harness for mode text",
        "text": "BOUNDED: for all NUL- and slash-free names up to 4 (quick) / 6 (thorough) bytes and ALL u16 modes the real comparison equals git's rule 'compare as if a tree name ended in /'; bisect_entry on sorted trees of <= 3 / 4 entries finds an entry exactly when a linear scan finds one of that name and kind. PROVED: mode text round trip for every u16.",
        "note": "Bounded stand-in for the order (decided at the first differing byte, so small names reach every branch - an argument, not a proof). 'Hashes like git' only modulo SHA-1.",
        "trusted_base": ["SHA-1 (for the hash clause)"],
    },
    "C06": {
        "built": True, "category": "other", "design_ref": "DESIGN.md section 5, C06",
        "technique": TECH + "panic-freedom obligations (Kani: overflow/bounds/unwrap/panic checks on symbolic bytes; Verus: bounds + overflow on extracted slice code) for the byte-level entry points only",
        "text": "Decided entry points: packet-line streaming/all_at_once (Verus, ANY length) + hex_prefix (all 2^32 prefixes); and BOUNDED: loose-object header, tree entry iterator and mode parser, reference-name validators and sanitizer, ANSI-C unquoting, EWAH bitmap decode/walk, index entry decoder. All other listed parsers (commit/tag objects, refs, reflog, config, attributes, mailmap, commit-graph/multi-pack-index files, protocol, URL, refspec, revspec, pathspec, date, credentials) are NOT covered and are listed as undecided in the evidence.",
        "note": "Level 'other': 9 of the 26 entry points named in the statement are under contract, most of them bounded by input length. Termination is only established within unwinding bounds.",
        "trusted_base": [],
    },
    "C07": {
        "built": True, "category": "other", "design_ref": "DESIGN.md section 5, C07",
        "technique": TECH + "Kani full-domain harnesses (all u64 x u64, loops bounded by 10 LEB groups, unwinding assertions on) inside gix-pack for header write -> from_bytes/from_read; Verus proofs of the extracted leb64 and parse_header_info for slices of any length; bounded Kani harness for delta::apply against a spec interpreter",
        "text": "PROVED for all 2^64 sizes x all 2^64 base distances / all base ids / the four base kinds: the written header has git's layout, decodes from memory and from a stream to the same values and consumes exactly the written length (= Header::size). PROVED (Verus, any slice length): leb64 and parse_header_info read exactly the terminated prefix and return its value without overflow or out-of-bounds access. BOUNDED: delta::apply equals a spec interpreter of the copy/insert format for deltas <= 6 (quick) / 8 bytes.",
        "note": "Trusted: zlib inflation is outside; deltas are 'any well-formed delta in the format' within the bound, not samples of git output; io::Error message formatting stubbed on from_read harnesses.",
        "trusted_base": ["zlib"],
    },
    "C15": {
        "built": True, "category": "other", "design_ref": "DESIGN.md section 5, C15",
        "technique": TECH + "Kani bounded harnesses on the real gix-validate crate against the rules of git-check-ref-format(1) written as a spec function",
        "text": "BOUNDED: tag::name / reference::name_partial accept exactly git's names for every byte string up to 5 (quick) / 8 bytes, reference::name additionally the one-level rule up to 3 / 5 bytes; name_partial_or_sanitize never panics and yields a name that validates and that git accepts for every input up to 2 (quick) / 4 bytes plus separator/.lock skeletons. Known finding: the single name '@'.",
        "note": "Bounded stand-in; spec function cross-checked against `git check-ref-format` at development time only (7368 names, 0 mismatches).",
        "trusted_base": [],
    },
    "C24": {
        "built": True, "category": "other", "design_ref": "DESIGN.md section 5, C24",
        "technique": TECH + "Kani bounded harness inside gix-index on decode::entries::load_one over fully symbolic entry bytes against git's documented entry layout",
        "text": "Only the per-entry layout clause: BOUNDED over every 63..72-byte (quick) / 96-byte input, an entry that decodes has git's fields, flags, path and occupies align8(62+ext+len+1) bytes, including the saturated 0xfff length field; truncated input never panics. Thread limits, extensions, V4 and whole-file agreement with git are undecided.",
        "note": "Bounded stand-in for one clause; layout spec taken from gitformat-index / ondisk_ce_size.",
        "trusted_base": [],
    },
    "C25": {
        "built": True, "category": "other", "design_ref": "DESIGN.md section 5, C25",
        "technique": TECH + "Kani bounded harness inside gix-index on write::entries / Entry::write_to against git's documented entry layout",
        "text": "Only the per-entry clause: BOUNDED for two entries with paths up to 6 (quick) / 10 bytes and ALL stat/mode/id/flag values, the written bytes have git's layout (big-endian fields, flag word with min(len,0xfff), extended word, NUL padding to 8, contiguity). Checksum, header, extensions, read-back of whole files and acceptance by git are undecided.",
        "note": "Bounded stand-in for one clause.",
        "trusted_base": [],
    },
    "C29": {
        "built": True, "category": "other", "design_ref": "DESIGN.md section 5, C29",
        "technique": TECH + "Verus proof of the extracted decode::{streaming,to_data_line,all_at_once} (any input length) over a hex_prefix contract that a Kani full-domain harness discharges for all 2^32 prefixes; bounded Kani encoder->decoder round trips",
        "text": "PROVED: any 4-byte prefix yields the documented control line / error / wanted length and never panics; streaming() on a slice of any length returns exactly data[4..n] with 4 < n <= 65520 or reports the missing byte count, with every slice index in range. BOUNDED: all six encoders followed by the decoder return the payload for payloads up to 4 (quick) / 10 bytes; boundary payload lengths. Reader chunk-independence and side-band demultiplexing are undecided.",
        "note": "Trusted: faster_hex SIMD paths (scalar path executed), Verus/Z3, Kani/CBMC.",
        "trusted_base": ["faster-hex SIMD code paths"],
    },
    "C34": {
        "built": True, "category": "other", "design_ref": "DESIGN.md section 5, C34",
        "technique": TECH + "Kani harnesses inside gix-url for the argument-safety classification (complete for the one byte they read) and bounded harnesses on gix_quote::single against a POSIX-sh unquoting spec",
        "text": "PROVED (the functions read one byte): user/host are reported Dangerous and withheld by *_argument_safe exactly when they start with '-', path_argument_safe withholds exactly paths whose first byte after '/' is '-'. BOUNDED: gix_quote::single(s) is read by a POSIX shell as exactly one word equal to s for all s up to 2 (quick) / 4 bytes. That every transport call site uses these functions, prepare_invocation and gix_command are undecided.",
        "note": "Call-site routing is not a contract; stays undecided.",
        "trusted_base": [],
    },
    "C40": {
        "built": True, "category": "other", "design_ref": "DESIGN.md section 5, C40",
        "technique": TECH + "Kani bounded harnesses on gix_validate::path::component over generators of the refused classes (symbolic case masks, fillers, positions, option combinations)",
        "text": "BOUNDED: every member of the generated families (.git/git~1 case variants with trailing dots/spaces/streams, HFS-ignorable code points, symlinked .gitmodules variants incl. 8.3 and hashed short names, Windows device names, separators, empty) up to the stated suffix bound is refused under the relevant option combinations.",
        "note": "One direction only (refused classes are refused), as the property states; call sites undecided.",
        "trusted_base": [],
    },
    "C57": {
        "built": True, "category": "other", "design_ref": "DESIGN.md section 5, C57",
        "technique": TECH + "Kani bounded harnesses on gix_quote::ansi_c::undo against git's documented C-style quoting as a spec function",
        "text": "BOUNDED: undo(cquote(s) ++ rest) == (s, len(cquote(s))) for every s of <= 1 (quick) / 2 bytes of every escape class and every rest of <= 1 / 2 bytes; unquoted input of <= 3 / 5 bytes is returned unchanged.",
        "note": "Bounded stand-in.",
        "trusted_base": [],
    },
})

NOT_APPLICABLE = {
    "C02": "oracle is objects produced by the git binary; winnow combinator decoders are outside Verus' subset and beyond CBMC at realistic object sizes; no contract short of 'equals git' states the property",
    "C04": "history property over HashMap<BString, Tree> + object-database callbacks (dyn FindExt); Verus cannot take the code, CBMC cannot take HashMap at useful bounds; ghost-state contracts would be a re-implementation",
    "C08": "composition of zlib inflation, delta chains and clru/hashbrown/Arc caches under arbitrary request histories; no function-local contract carries it",
    "C10": "oracle is git index-pack; pipeline is threads + zlib + tempfiles",
    "C11": "file system + zlib + rename; the contract-sized piece (loose header) is covered under C01",
    "C12": "schedules x file-system histories over ArcSwap/atomics; Kani has no threads, Verus would need a rewrite onto its permission types (a model)",
    "C13": "relative-path resolution and cycle detection go through realpath / the file system",
    "C16": "history over lock files and loose/packed refs on a real file system; no verifier here models the OS",
    "C17": "liveness / bounded-time claim under lock contention; not expressible as a function contract",
    "C18": "oracle is git for-each-ref over file-system state",
    "C19": "binary_search_by over bytes with raw-pointer record-start arithmetic inside a closure plus winnow parsing: outside Verus' subset; Kani needs >=3 records (~130 symbolic bytes) through combinators; extracting only the arithmetic would be a model",
    "C20": "crash points of a file system",
    "C21": "Reverse::next is generic over Read+Seek, recursive and yields winnow-parsed lines; unreachable for Verus, for Kani only with concrete content (= a test)",
    "C22": "exclusivity is OS behaviour; the naming clause goes through Path::with_extension + format! + to_string_lossy which CBMC does not get through (measured) and Verus treats as opaque",
    "C23": "signals and processes",
    "C26": "winnow event-stream parser over Cow<BStr>; serialize(parse(x))==x needs an inductive invariant through every combinator",
    "C27": "oracle is git config",
    "C28": "history over event vectors of the winnow parser",
    "C30": "oracle is a live git upload-pack",
    "C31": "whole-system property with git as oracle",
    "C33": "parsing goes through the url crate and percent-decoding over Strings; no contract short of the whole grammar",
    "C35": "measured: Context::write_to with one 1-byte value exhausts 15 GB in CBMC (String, io::Error::new, thiserror); Verus rejects the str reasoning in validate",
    "C36": "the only specification is git's wildmatch.c; proving equivalence of two recursive matchers is program equivalence, not a contract",
    "C37": "oracle is git check-ignore over directory trees and configuration",
    "C38": "oracle is git check-attr",
    "C39": "oracle is git ls-files with pathspecs",
    "C41": "file system, symlinks, git as oracle",
    "C42": "ghost invariant over histories of make_relative_path_current; &mut dyn Delegate, Peekable<Components>, Path/PathBuf are opaque to Verus; Kani does not finish even two concrete paths (std::path::Components)",
    "C43": "oracle is git hash-object/checkout across the attribute x config matrix",
    "C44": "oracle is git diff-tree; object database callbacks",
    "C45": "built on the imara-diff dependency and Vec<Hunk> manipulation; identities need the diff algorithm's own contract",
    "C46": "paint-down-to-common over PriorityQueue + hash maps with git as oracle; research-size invariant",
    "C47": "oracle is git rev-list over an object database",
    "C48": "oracle is git rev-parse",
    "C49": "file-system walk with git status as oracle",
    "C50": "file-system discovery with git as oracle",
    "C51": "schedule-quantified; Kani has no threads; the sequential InOrderIter clause did not finish for 2 items (BTreeMap)",
    "C52": "all formats but Raw go through jiff; Raw is itoa + str::parse::<i64> (64-bit division, UTF-8 iterators: no CBMC result in 15 min)",
    "C53": "oracle is git check-mailmap",
    "C54": "object database with deletions as oracle",
    "C55": "oracle is git archive and the tar/zip crates",
    "C56": "zlib and SHA-1 are external crates; the property is about their streaming semantics",
}

UNDER_CONSTRUCTION = "claimed in DESIGN.md; the check is still being built in this round and is not registered yet"
ALL_IDS = ["C%02d" % i for i in range(1, 58)]
